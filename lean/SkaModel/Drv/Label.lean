import SkaModel.Core.Proto
import SkaModel.Core.Label

/-! Driver commands for the `Label` model family (C16, C09). One self-contained case per line.

Tokens: a label is `n<int>` (number with order-preserving integer code), `nan`, `s<int>` (string
with order-preserving code), `none`; a `missing_label` of unsupported Python type is `bad`;
an array is `<kind:n|s|o> <rows> <cols|-> <labels…>` (row-major). -/

namespace Ska.Drv.Label
open Ska Ska.Proto Ska.Label

def parseLbl? (t : String) : Option (Lbl Int) :=
  if t = "nan" then some .nanv
  else if t = "none" then some .none_
  else if t.startsWith "n" then (t.drop 1).toInt?.map Lbl.num
  else if t.startsWith "s" then (t.drop 1).toInt?.map Lbl.str
  else none

def lbl : P (Lbl Int) := do
  match parseLbl? (← tok) with
  | some l => pure l
  | none => failure

def mlArg : P (Option (Lbl Int)) := do
  let t ← tok
  if t = "bad" then pure none
  else match parseLbl? t with
    | some l => pure (some l)
    | none => failure

def kind : P ArrKind := do
  match (← tok) with
  | "n" => pure .number
  | "s" => pure .string
  | "o" => pure .object
  | _ => failure

def arr : P (Arr Int) := do
  let k ← kind
  let r ← nat
  let ct ← tok
  if ct = "-" then
    let f ← many lbl r
    pure ⟨k, r, none, f⟩
  else
    match ct.toNat? with
    | none => failure
    | some c =>
      let f ← many lbl (r * c)
      pure ⟨k, r, some c, f⟩

def showLbl : Lbl Int → String
  | .num x => s!"n{x}"
  | .nanv => "nan"
  | .str s => s!"s{s}"
  | .none_ => "none"

def showLbls (l : List (Lbl Int)) : String := " ".intercalate (l.map showLbl)

def showKind : ArrKind → String
  | .number => "n" | .string => "s" | .object => "o"

def showErr : LErr → String
  | .typeError => "err type-error"
  | .shape => "err shape"
  | .unseen => "err unseen"
  | .duplicate => "err duplicate"
  | .classesMissing => "err classes-missing"
  | .unsupported => "err unsupported"
  | .noClasses => "err no-classes"
  | .trueMissing => "err true-missing"
  | .normalize => "err normalize"

def showPairs (l : List (Nat × Nat)) : String := " ".intercalate (l.map (fun p => s!"{p.1},{p.2}"))

/-- `lbl <isList> <ml|bad> <arr>` → `ok <mask> | <labeled idx> | <unlabeled idx>` (2-d: `i,j` pairs). -/
def cmdLbl : P String := do
  let isList ← bool
  let ml ← mlArg
  let a ← arr
  match isUnlabeledArr isList ml a with
  | .error e => pure (showErr e)
  | .ok mu =>
    match a.cols with
    | none =>
      match labeledIndices1 isList ml a, unlabeledIndices1 isList ml a with
      | .ok li, .ok ui => pure s!"ok {showBools mu} | {showNats li} | {showNats ui}"
      | .error e, _ => pure (showErr e)
      | _, .error e => pure (showErr e)
    | some c =>
      match labeledIndices2 isList ml a c, unlabeledIndices2 isList ml a c with
      | .ok li, .ok ui => pure s!"ok {showBools mu} | {showPairs li} | {showPairs ui}"
      | .error e, _ => pure (showErr e)
      | _, .error e => pure (showErr e)

/-- `enc <ml|bad> <cg:0|1> [<kc> <K> classes…] <arr yfit> <arr ytr> <n> ints…`
→ `<fit> ; <transform(ytr)> ; <inverse(transform(ytr))> ; <inverse(ints)>` -/
def cmdEnc : P String := do
  let ml ← mlArg
  let cg ← bool
  let classes ← (if cg then do
      let kc ← kind
      let cls ← listOf lbl
      pure (some (kc, cls))
    else pure none : P (Option (ArrKind × List (Lbl Int))))
  let yfit ← arr
  let ytr ← arr
  let inv ← listOf int
  match encoderFit ml classes yfit with
  | .error e => pure (showErr e)
  | .ok f =>
    let sFit := s!"ok {showKind f.dkind} {showLbls f.classes}"
    let tr := encoderTransform f ytr
    let sTr := match tr with
      | .ok e => "ok " ++ showInts e
      | .error e => showErr e
    let sRt := match tr with
      | .ok e => (match encoderInverse f e with
          | .ok l => "ok " ++ showLbls l
          | .error e => showErr e)
      | .error _ => "-"
    let sInv := match encoderInverse f inv with
      | .ok l => "ok " ++ showLbls l
      | .error e => showErr e
    pure s!"{sFit} ; {sTr} ; {sRt} ; {sInv}"

/-- `argsortperm <n> labels…` → `np.argsort(classes)` -/
def cmdArgsort : P String := do
  let cls ← listOf lbl
  pure (showNats (argsort cls))

def handlers : List (String × P String) :=
  [ ("lbl", cmdLbl), ("enc", cmdEnc), ("argsortperm", cmdArgsort) ]

end Ska.Drv.Label
