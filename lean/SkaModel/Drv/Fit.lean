import SkaModel.Core.Proto

/-! Driver commands for the `Fit` model family. One self-contained case per line. -/

namespace Ska.Drv.Fit
open Ska Ska.Proto

def handlers : List (String × P String) := []

end Ska.Drv.Fit
