import SkaModel.Core.Proto
import SkaModel.Core.Fit

/-! Driver commands for the `Fit` model family (C12). One self-contained case per line.
Rows are identified by their position (the harness gives every training row a unique id feature). -/

namespace Ska.Drv.Fit
open Ska Ska.Classifier Ska.Fit Ska.Proto

/-- class index or `n` (missing) -/
def optNat : P (Option Nat) := do
  let t ← tok
  if t = "n" then pure none
  else match t.toNat? with
    | some v => pure (some v)
    | none => failure

def showOptNat : Option Nat → String
  | none => "n"
  | some v => toString v

def showW (w : Option (List Float)) : String :=
  match w with
  | none => "none"
  | some l => "w " ++ showFloats l

def rowsOf {β γ : Type} (ys : List β) (ws : List γ) : List (Nat × β × γ) :=
  (List.range ys.length).zip (ys.zip ws)

/-- `skfit <k> <acceptsW> <hasW> <n> y(n) w(n)` : `SklearnClassifier._fit`.
Output `<counts> | none` or `<counts> | <ids> ; <ys> ; <weights|none>`. -/
def cmdSkFit : P String := do
  let k ← nat
  let acceptsW ← bool; let hasW ← bool
  let n ← nat
  let ys ← many optNat n
  let ws ← many float n
  let r := sklearnFit k acceptsW hasW (rowsOf ys ws)
  let c := showNats r.counts
  match r.call with
  | none => pure (c ++ " | none")
  | some (xs, y, w) => pure (c ++ " | " ++ showNats xs ++ " ; " ++ showNats y ++ " ; " ++ showW w)

/-- `regfit <hasW> <n> y(n, nan = missing) w(n)` : `SklearnRegressor._fit`. -/
def cmdRegFit : P String := do
  let hasW ← bool
  let n ← nat
  let ys ← many optFloat n
  let ws ← many float n
  let (xs, y, w) := regressorFit hasW (rowsOf ys ws)
  pure (showNats xs ++ " ; " ++ showFloats y ++ " ; " ++ showW w)

/-- `nicfit <hasW> <n> y(n) w(n)` : `NICKernelRegressor.fit`. -/
def cmdNicFit : P String := do
  let hasW ← bool
  let n ← nat
  let ys ← many optFloat n
  let ws ← many float n
  match nicFit hasW (rowsOf ys ws) with
  | .error .zeroWeights => pure "err zero-weights"
  | .ok (xs, y, w) => pure ("ok " ++ showNats xs ++ " ; " ++ showFloats y ++ " ; " ++ showW w)

/-- `alrfit <hasW> <n> <a> y(n*a) w(n*a)` : rows reaching the EM algorithm of `AnnotatorLogisticRegression`. -/
def cmdAlrFit : P String := do
  let hasW ← bool
  let n ← nat; let a ← nat
  let ys ← many (many optNat a) n
  let ws ← many (many float a) n
  let (xs, y, w) := alrFit hasW (rowsOf ys ws)
  let ystr := " , ".intercalate (y.map (fun r => " ".intercalate (r.map showOptNat)))
  let wstr := match w with
    | none => "none"
    | some l => "w " ++ " , ".intercalate (l.map showFloats)
  pure (showNats xs ++ " ; " ++ ystr ++ " ; " ++ wstr)

/-- `pwcrows <k> <n> kern(n) y(n) w(n)` : `predict_freq` of one query point from the training rows;
output: the `k` frequencies over all rows, then over the labeled rows only. -/
def cmdPwcRows : P String := do
  let k ← nat
  let n ← nat
  let kern ← many float n
  let ys ← many optNat n
  let ws ← many float n
  let d := rowsOf ys ws
  let kf : Nat → Float := fun i => kern.getD i 0
  let full := (List.range k).map (fun c => predictFreq kf d c)
  let lab := (List.range k).map (fun c => predictFreq kf (d.filter isLabeledRow) c)
  pure (showFloats full ++ " | " ++ showFloats lab)

def handlers : List (String × P String) :=
  [ ("skfit", cmdSkFit), ("regfit", cmdRegFit), ("nicfit", cmdNicFit), ("alrfit", cmdAlrFit),
    ("pwcrows", cmdPwcRows) ]

end Ska.Drv.Fit
