import SkaModel.Core.Proto

/-! Driver commands for the `Pool` model family. One self-contained case per line. -/

namespace Ska.Drv.Pool
open Ska Ska.Proto

def handlers : List (String × P String) := []

end Ska.Drv.Pool
