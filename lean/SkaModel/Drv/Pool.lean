import SkaModel.Core.Proto
import SkaModel.Core.Pool
import SkaModel.Core.Loop
import SkaModel.Core.SeqSelect
import SkaModel.Core.SeqChoice

/-! Driver commands for the pool skeleton (C01, C02, C14). One self-contained case per line. -/

namespace Ska.Drv.Pool
open Ska Ska.Proto

def showErr : SelErr → String
  | .batchSize => "err batch-size"
  | .method => "err method"
  | .infinite => "err infinite"
  | .mass => "err mass"
  | .oracle => "err oracle"

/-- `some <k> i1..ik` | `none` -/
def mapping : P (Option (List Nat)) := do
  match (← tok) with
  | "some" => let l ← listOf nat; pure (some l)
  | "none" => pure none
  | _ => failure

def selKind : P SelKind := do
  match (← tok) with
  | "max" => pure .max
  | "mass" => pure .mass
  | "number" => pure .number
  | _ => failure

/-- `poolA <n> <mapping> <uc…> <b:int> <max|proportional> <k> noises(k × len full)… <choice…>`
→ `ok <clipped b> | picks | rows | full`  -/
def cmdPoolA : P String := do
  let n ← nat
  let mp ← mapping
  let uc ← listOf optFloat
  let b ← int
  let ms ← tok
  let full := fullUtilities n mp uc
  let k ← nat
  let noises ← many (many float full.length) k
  let choice ← listOf nat
  if b < 1 then pure (showErr .batchSize) else
  let m ← (match ms with | "max" => pure Method.max | "proportional" => pure Method.proportional | _ => failure : P Method)
  match poolQueryA (β := Float) Float.isInf n mp uc b.toNat m noises choice with
  | .error e => pure (showErr e ++ " | full " ++ showOptFloats full)
  | .ok rs =>
    pure ("ok " ++ toString (min b.toNat (nCandOf mp uc)) ++ " | " ++ showNats (rs.map (·.1)) ++ " | "
      ++ " ; ".intercalate (rs.map (fun r => showOptFloats r.2)) ++ " | full " ++ showOptFloats full)

/-- `validpool <kind> <n> <cand…> <b> <q…> <k> rows(k × n)…` → `batch=<0|1> utils=<0|1>` -/
def cmdValidPool : P String := do
  let kind ← selKind
  let n ← nat
  let cand ← listOf nat
  let b ← nat
  let q ← listOf nat
  let k ← nat
  let rows ← many (many optFloat n) k
  let vb := validBatchB cand b q
  let vu := validUtilsB kind n cand q rows
  pure s!"batch={if vb then 1 else 0} utils={if vu then 1 else 0}"

/-- `altrace <b> <y mask…> <t> <batch_1…> … <batch_t…>` → `accept=<0|1>` -/
def cmdAlTrace : P String := do
  let b ← nat
  let y ← listOf bool
  let t ← nat
  let tr ← many (listOf nat) t
  pure s!"accept={if alTraceAccepts b y tr then 1 else 0}"

/-- `unlabeled <y mask…>` → indices -/
def cmdUnlabeled : P String := do
  let y ← listOf bool
  pure (showNats (unlabeledIdx y))

/-- `candmap <none | idx <k> i… | rows <k>> <y mask…>` → the mapping (`none` for feature rows) -/
def cmdCandMap : P String := do
  let c ← (do
    match (← tok) with
    | "none" => pure CandSpec.none
    | "idx" => let l ← listOf nat; pure (CandSpec.idx l)
    | "rows" => let k ← nat; pure (CandSpec.rows k)
    | _ => failure : P CandSpec)
  let y ← listOf bool
  match transformCandidates c y with
  | some mp => pure ("some " ++ showNats mp)
  | Option.none => pure "none"

/-- `seqcheck <cand…> <k> (<n> row… noise…)×k` → `picks … | mask=<0|1> outside=<0|1>` -/
def cmdSeqCheck : P String := do
  let cand ← listOf nat
  let k ← nat
  let steps ← many (do
    let row ← listOf optFloat
    let nz ← many float row.length
    pure (row, nz)) k
  let rows := steps.map (·.1)
  let noises := steps.map (·.2)
  let picks := Ska.Seq.seqPicks rows noises
  let m := Ska.Seq.maskOkB [] rows picks
  let o := rows.all (Ska.Seq.nanOutsideB cand)
  pure s!"picks {showNats picks} | mask={if m then 1 else 0} outside={if o then 1 else 0}"

/-- `choiceseq <first…> <k> (<p…> <u>)×k` → `picks … | zero=<0|1> prob=<0|1>`
(weight vectors and uniform draws captured from the real `RandomState.choice` calls) -/
def cmdChoiceSeq : P String := do
  let first ← listOf nat
  let k ← nat
  let steps ← many (do
    let p ← listOf float
    let u ← float
    pure (p, u)) k
  let rows := steps.map (·.1)
  let us := steps.map (·.2)
  let picks := Ska.Seq.choicePicks rows us
  let z := Ska.Seq.zeroOkB first rows picks
  let ok := (List.zipWith Ska.Seq.probOkB rows us).all id
  pure s!"picks {showNats picks} | zero={if z then 1 else 0} prob={if ok then 1 else 0}"

/-- `shrinkseq <remaining…> <k> (<n> score… noise…)×k` → `picks … | len=<0|1>` or `none` -/
def cmdShrinkSeq : P String := do
  let remaining ← listOf nat
  let k ← nat
  let steps ← many (do
    let row ← listOf optFloat
    let nz ← many float row.length
    pure (row, nz)) k
  let rows := steps.map (·.1)
  let noises := steps.map (·.2)
  let l := Ska.Seq.shrinkLenOkB remaining.length rows
  match Ska.Seq.shrinkSeq remaining rows noises with
  | some picks => pure s!"picks {showNats picks} | len={if l then 1 else 0}"
  | Option.none => pure "none"

def handlers : List (String × P String) :=
  [ ("candmap", cmdCandMap), ("seqcheck", cmdSeqCheck), ("choiceseq", cmdChoiceSeq), ("shrinkseq", cmdShrinkSeq), ("poolA", cmdPoolA), ("validpool", cmdValidPool), ("altrace", cmdAlTrace), ("unlabeled", cmdUnlabeled) ]

end Ska.Drv.Pool
