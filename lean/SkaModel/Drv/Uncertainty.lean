import SkaModel.Core.Proto
import SkaModel.Core.Uncertainty

/-! Driver command for the uncertainty scores (`Core/Uncertainty.lean`).

`us_util <method 0=least_confident|1=margin> <n> <mapped 0|1> <k> mapping… <r> <c> probas(r*c)… <len> weights…`
→ the utility vector handed to `simple_batch` (NaN as `nan`). -/

namespace Ska.Drv.Uncertainty
open Ska Ska.Proto Ska.Uncertainty

def cmdUs : P String := do
  let mi ← nat
  let n ← nat
  let mapped ← bool
  let mp ← listOf nat
  let r ← nat; let c ← nat
  let flat ← many float (r * c)
  let w ← listOf float
  let m : UMethod := if mi == 0 then .leastConfident else .margin
  let probas := chunk c r flat
  let u : List (Option Float) :=
    if mapped then usUtilities m n mp probas w
    else weight ((scores m probas).map some) w
  pure (showOptFloats u)

def handlers : List (String × P String) := [("us_util", cmdUs)]

end Ska.Drv.Uncertainty
