import SkaModel.Core.Proto
import SkaModel.Core.Density

/-! Driver command for the density window of `StreamDensityBasedAL` (`Core/Density.lean`).

`dens_win <window_size> <k> {<q|u> <n> x1 y1 … xn yn}×k` — a history of `query` (q) / `update` (u) calls on chunks of
two-dimensional points; the distance is the Manhattan distance (exact on the grid points the harness uses).
Output per call: `<flags> | <window points> | <min_dist_>` joined by ` ; `. -/

namespace Ska.Drv.Density
open Ska Ska.Proto Ska.Budget Ska.Density

abbrev Pt := Float × Float

def manhattan (a b : Pt) : Float := Float.abs (a.1 - b.1) + Float.abs (a.2 - b.2)

def ptP : P Pt := do
  let x ← float; let y ← float
  pure (x, y)

structure Call where
  isQuery : Bool
  pts : List Pt

def callP : P Call := do
  let t ← tok
  let pts ← listOf ptP
  pure ⟨t == "q", pts⟩

def inf : Float := 1.0 / 0.0

def showPts (l : List Pt) : String := showFloats (l.flatMap (fun p => [p.1, p.2]))

def showState (s : DW Float Pt) : String := s!"{showPts s.win} | {showFloats s.md}"

def runCalls (w : Nat) : DW Float Pt → List Call → List String
  | _, [] => []
  | s, c :: cs =>
    let r := if c.isQuery then query w inf manhattan s c.pts else update w inf manhattan s c.pts
    (showNats (r.1.map (fun b => if b then 1 else 0)) ++ " | " ++ showState r.2) :: runCalls w r.2 cs

def cmdDens : P String := do
  let w ← nat
  let cs ← listOf callP
  pure (" ; ".intercalate (runCalls w { win := [], md := [] } cs))

def handlers : List (String × P String) := [("dens_win", cmdDens)]

end Ska.Drv.Density
