import SkaModel.Core.Proto
import SkaModel.Core.IndexWrapper

/-! Driver commands for the `IndexWrapper` model family (C19). One self-contained case per line:
the constructor configuration followed by a complete call sequence; the output holds the model's
state after every call.

`iw <n> <native> <unique> <speed> y0(n ints, <0 = missing) <sw0:optlist> <prefit: 0 | 1 D> <initSetBase>
    <classes:list int> kernel(n*n optFloat) <nops> op…`
ops: `F idx y sw sb` | `P idx y sw ub sb` | `C idxfit idxpred fp pp` | `Q kind idx`
(`idx` = `<k> i…`, optional lists = `N` | `<k> x…`, `D` = `<k> i… <k> y… sw`). -/

namespace Ska.Drv.IndexWrapper
open Ska Ska.Proto Ska.IW

def optList {γ : Type} (p : P γ) : P (Option (List γ)) := do
  let t ← tok
  if t = "N" then pure none
  else match t.toNat? with
    | some n => do let xs ← many p n; pure (some xs)
    | none => failure

def dataP : P (Data Int Float) := do
  let idx ← listOf int
  let y ← listOf int
  let sw ← optList float
  pure ⟨idx, y, sw⟩

inductive Cmd where
  | op (o : Op Int Float)
  | pre (a b : List Int) (fp pp : Nat)
  | query (kind : Kind) (q : List Int)

def cmdP : P Cmd := do
  match (← tok) with
  | "F" => do
    let idx ← listOf int; let y ← optList int; let sw ← optList float; let sb ← bool
    pure (.op (.fit idx y sw sb))
  | "P" => do
    let idx ← listOf int; let y ← optList int; let sw ← optList float; let ub ← bool; let sb ← bool
    pure (.op (.pfit idx y sw ub sb))
  | "C" => do
    let a ← listOf int; let b ← listOf int; let fp ← nat; let pp ← nat
    pure (.pre a b fp pp)
  | "Q" => do
    let k ← nat; let q ← listOf int
    pure (.query (if k = 0 then .label else if k = 1 then .proba else .freq) q)
  | _ => failure

def showErr : Err → String
  | .value => "err value"
  | .index => "err index"
  | .notFitted => "err notfitted"
  | .attr => "err attr"
  | .mixed => "err mixed"
  | .nan => "err nan"
  | .param => "err param"

def showOptW : Option (List Float) → String
  | none => "N"
  | some w => s!"{w.length} {showFloats w}"

def showData (d : Data Int Float) : String :=
  s!"d {d.idx.length} {showInts d.idx} {d.y.length} {showInts d.y} {showOptW d.sw}"

def showOD : Option (Data Int Float) → String
  | none => "none"
  | some d => showData d

def showOH : Option (Hist Int Float) → String
  | none => "none"
  | some h => s!"h {h.rest.length + 1} " ++ " ".intercalate ((h.first :: h.rest).map showData)

def showSt (s : St (Hist Int Float) Int Float) : String :=
  s!"clf {showOH s.clf} cur {showOD s.cur} bclf {showOH s.bclf} base {showOD s.base}"

def showMat (rows : List (List Float)) : String :=
  s!"{rows.length} {(rows.headD []).length} " ++ " ".intercalate (rows.map showFloats)

def showKind : Kind → String
  | .label => "0" | .proba => "1" | .freq => "2"

def cmdIW : P String := do
  let n ← nat
  let native ← bool; let unique ← bool; let speed ← bool
  let y0 ← many int n
  let sw0 ← optList float
  let pf ← bool
  let prefit ← (if pf then do let d ← dataP; pure (some (Hist.fit d)) else pure none)
  let isb ← bool
  let classes ← listOf int
  let kern ← many optFloat (n*n)
  let nops ← nat
  let cmds ← many cmdP nops
  let cfg : Cfg Int Float := ⟨n, y0, sw0, native, unique, speed⟩
  let k : Nat → Nat → Float := fun i j => match kern[i*n + j]? with | some (some v) => v | _ => Float.ofBits 0x7FF8000000000000
  let isMissing : Int → Bool := fun l => decide (l < 0)
  match init cfg prefit isb with
  | .error e => pure ("init " ++ showErr e)
  | .ok s0 =>
    let rec go (s : St (Hist Int Float) Int Float) (pre : Tab Float) (cs : List Cmd) (acc : List String) : List String :=
      match cs with
      | [] => acc.reverse
      | .op o :: rest =>
        let r := step cfg Hist.fit Hist.pfit s o
        let st := match r.2 with | none => "ok" | some e => showErr e
        go r.1 pre rest ((st ++ " " ++ showSt r.1) :: acc)
      | .pre a b fp pp :: rest =>
        let r := precompute cfg isMissing k pre a b fp pp
        let st := match r.2 with | none => "ok" | some e => showErr e
        let tab := (List.range (n*n)).map (fun t => r.1 (t / n) (t % n))
        go s r.1 rest ((st ++ " tab " ++ showOptFloats tab) :: acc)
      | .query kind q :: rest =>
        let out := match predictPlan cfg pf s pre kind q with
          | .error e => showErr e
          | .ok (.table kd rows) =>
            let fr := match s.cur with
              | some d => freqRows (fun (a b : Int) => a == b) rows d.y d.sw classes
              | none => []
            s!"ok table {showKind kd} {showMat rows} freq {showMat fr}"
          | .ok (.direct kd qs) => s!"ok direct {showKind kd} {showNats qs}"
          | .ok (.orig kd qs) => s!"ok orig {showKind kd} {showNats qs}"
        go s pre rest (out :: acc)
    pure (" || ".intercalate (("init ok " ++ showSt s0) :: go s0 Tab.empty cmds []))

def handlers : List (String × P String) := [("iw", cmdIW)]

end Ska.Drv.IndexWrapper
