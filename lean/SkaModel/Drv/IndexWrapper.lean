import SkaModel.Core.Proto

/-! Driver commands for the `IndexWrapper` model family. One self-contained case per line. -/

namespace Ska.Drv.IndexWrapper
open Ska Ska.Proto

def handlers : List (String × P String) := []

end Ska.Drv.IndexWrapper
