import SkaModel.Core.Proto
import SkaModel.Core.Window

/-! Driver commands for the `Window` model family (sliding-window clause of C13). One self-contained
case per line: `win <window: N | int> <only_labeled> <nops> op…` with
`op = <isFit> <k> (id label)×k <weights: N | k w…>`; the output holds the model's buffers and what the
estimator was fitted on after every call. A sample is `(row id, label)`, label `< 0` = missing. -/

namespace Ska.Drv.Window
open Ska Ska.Proto Ska.Window

abbrev Sample := Nat × Int
abbrev Fitted := List Sample × Option (List Float)

def optList {γ : Type} (p : P γ) : P (Option (List γ)) := do
  let t ← tok
  if t = "N" then pure none
  else match t.toNat? with
    | some n => do let xs ← many p n; pure (some xs)
    | none => failure

def sampleP : P Sample := do let i ← nat; let l ← int; pure (i, l)

def opP : P (Op Sample Float) := do
  let f ← bool
  let xs ← listOf sampleP
  let ws ← optList float
  pure (f, xs, ws)

def showSamples (l : List Sample) : String :=
  s!"{l.length} " ++ " ".intercalate (l.map (fun t => s!"{t.1} {t.2}"))

def showOptW : Option (List Float) → String
  | none => "N"
  | some w => s!"{w.length} {showFloats w}"

def showSt (s : St Fitted Sample Float) : String :=
  let c := match s.clf with
    | none => "none"
    | some (b, w) => s!"{showSamples b} sw {showOptW w}"
  s!"buf {showSamples s.buf} sw {showOptW s.sw} clf {c}"

def cmdWin : P String := do
  let wt ← tok
  let window : Option Nat ← (if wt = "N" then pure none else match wt.toInt? with
    | some n => pure (some n.toNat)     -- non-positive sizes are rejected by the validation (`some 0`)
    | none => failure)
  let ol ← bool
  let nops ← nat
  let ops ← many opP nops
  let cfg : Cfg := ⟨window, ol⟩
  let labeled : Sample → Bool := fun t => decide (0 ≤ t.2)
  let fitFn : List Sample → Option (List Float) → Fitted := fun b w => (b, w)
  let rec go (s : St Fitted Sample Float) (os : List (Op Sample Float)) (acc : List String) : List String :=
    match os with
    | [] => acc.reverse
    | (f, xs, ws) :: rest =>
      let r := call cfg labeled fitFn f s xs ws
      let st := match r.2 with | none => "ok" | some .value => "err value" | some .attr => "err attr"
      go r.1 rest ((st ++ " " ++ showSt r.1) :: acc)
  pure (" || ".intercalate (go St.init ops []))

def handlers : List (String × P String) := [("win", cmdWin)]

end Ska.Drv.Window
