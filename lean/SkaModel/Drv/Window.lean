import SkaModel.Core.Proto

/-! Driver commands for the `Window` model family. One self-contained case per line. -/

namespace Ska.Drv.Window
open Ska Ska.Proto

def handlers : List (String × P String) := []

end Ska.Drv.Window
