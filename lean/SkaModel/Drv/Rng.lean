import SkaModel.Core.Proto
import SkaModel.Core.Rng

/-! Driver command for `check_random_state` (C06). One self-contained case per line. -/

namespace Ska.Drv.Rng
open Ska Ska.Proto Ska.Rng

/-- `crs <none | int | inst> <mult | -> <draw>` → `seed <derived seed | -> shared <0|1> advance 0`
`draw` is the first `randint(1, 2^31)` of (a copy of) the given generator, captured from numpy. -/
def cmdCrs : P String := do
  let kind ← tok
  let mt ← tok
  let draw ← nat
  let mult : Option Nat := mt.toNat?
  -- streams are irrelevant for what is printed; the instance's first value is `draw`
  let seed : Seed ← (match kind with
    | "none" => pure Seed.none
    | "int" => pure (Seed.int 0)
    | "inst" => pure (Seed.inst (fun _ => draw) 5)
    | _ => failure : P Seed)
  let mk : Nat → Stream := fun n _ => if kind = "int" && n = 0 then draw else n
  let r := checkRandomState mk seed mult (fun _ => 0) 0
  let seedTxt := match seed, mult with
    | .none, _ => "-"
    | .int _, Option.none => "given"
    | .inst _ _, Option.none => "-"
    | _, some m => toString (derivedSeed draw m)
  let adv := match seed with
    | .inst _ cur => r.callerCur - cur
    | _ => 0
  pure s!"seed {seedTxt} shared {if r.shared then 1 else 0} advance {adv}"

def handlers : List (String × P String) := [ ("crs", cmdCrs) ]

end Ska.Drv.Rng
