import SkaModel.Core.Proto
import SkaModel.Gen.WrapperGen

/-! Driver command executing the *generated* new-training-record block of `IndexClassifierWrapper.partial_fit`
(`Gen/WrapperGen.lean`): `g_iw_merge <unique> <idx_> <y_> <sw_?> <add_idx> <add_y> <add_sw?>` (lists as `<n> x_1 … x_n`,
an optional weight list as `0` / `1 <list>`; labels and weights are integers) prints `ok <idx> | <y> | <sw>` or `err <enum>`. -/

namespace Ska.Drv.WrapperGen
open Ska Ska.Proto Ska.IW Ska.Gen.IW

def optList : P (Option (List Int)) := do
  if (← bool) then
    let l ← listOf int
    pure (some l)
  else pure none

def showErr : Err → String
  | .value => "value" | .index => "index" | .notFitted => "notfitted" | .attr => "attr"
  | .mixed => "mixed" | .nan => "nan" | .param => "param"

def cmdMerge : P String := do
  let u ← bool
  let idx_ ← listOf int
  let y_ ← listOf int
  let sw_ ← optList
  let addIdx ← listOf int
  let addY ← listOf int
  let addSw ← optList
  match partial_fit.merge u idx_ y_ sw_ addIdx addY addSw with
  | .error e => pure s!"err {showErr e}"
  | .ok d =>
    let sw := match d.sw with | none => "none" | some w => showInts w
    pure s!"ok {showInts d.idx} | {showInts d.y} | {sw}"

/-- an attribute: `0` = not assigned, `1 <value>` -/
def attrOf {γ : Type} (p : P γ) : P (Option γ) := do
  if (← bool) then
    let v ← p
    pure (some v)
  else pure none

def showAttr {γ : Type} (f : γ → String) : Option γ → String
  | none => "absent"
  | some v => f v

def showOW : Option (List Int) → String
  | none => "None"
  | some w => "[" ++ showInts w ++ "]"

def showObj (o : Ska.PyIW.WObj Unit Int Int) : String :=
  let l := fun (x : List Int) => "[" ++ showInts x ++ "]"
  s!"clf {if o.clf_.isSome then 1 else 0} | {showAttr l o.idx_} | {showAttr l o.y_} | {showAttr showOW o.sample_weight_} | " ++
  s!"base {if o.base_clf_.isSome then 1 else 0} | {showAttr l o.base_idx_} | {showAttr l o.base_y_} | {showAttr showOW o.base_sample_weight_}"

/-- `g_iw_store <use_partial_fit> <set_base_clf> <idx_> <y_> <sample_weight_> <base_clf_?> <base_idx_> <base_y_> <base_sample_weight_>
<idx> <y> <sw?>`: the translated tail of `fit` on an object whose `clf_` has just been fitted -/
def cmdStore : P String := do
  let native ← bool
  let sb ← bool
  let i ← attrOf (listOf int)
  let y ← attrOf (listOf int)
  let w ← attrOf optList
  let bc ← bool
  let bi ← attrOf (listOf int)
  let by' ← attrOf (listOf int)
  let bw ← attrOf optList
  let idx ← listOf int
  let yy ← listOf int
  let ww ← optList
  let o : Ska.PyIW.WObj Unit Int Int :=
    { clf_ := some (), idx_ := i, y_ := y, sample_weight_ := w, base_clf_ := if bc then some () else none,
      base_idx_ := bi, base_y_ := by', base_sample_weight_ := bw }
  match fit.store native sb o idx yy ww with
  | .error e => pure s!"err {showErr e}"
  | .ok o' => pure (showObj o')

/-- a recording classifier: the index lists of the native `partial_fit` calls it has received so far -/
abbrev Hst := List (List Int)

def showHst (h : Hst) : String := " ; ".intercalate (h.map showInts)

/-- `g_iw_native <len(X)> <use_base_clf> <set_base_clf> <clf_ history?> <base_clf_ history?> <add_idx> <add_y> <add_sw?>`: the
translated native branch of `partial_fit`; a history is `0` (attribute absent) or `1 <k> <list>…` -/
def cmdNative : P String := do
  let n ← nat
  let ub ← bool
  let sb ← bool
  let clf ← attrOf (listOf (listOf int))
  let bclf ← attrOf (listOf (listOf int))
  let idx ← listOf int
  let y ← listOf int
  let sw ← optList
  let o : Ska.PyIW.WObj Hst Int Int := { clf_ := clf, base_clf_ := bclf }
  match partial_fit.native n (fun (c : Hst) (d : Data Int Int) => c ++ [d.idx]) ub sb o idx y sw with
  | .error e => pure s!"err {showErr e}"
  | .ok o' => pure s!"clf {showAttr showHst o'.clf_} | base {showAttr showHst o'.base_clf_}"

def handlers : List (String × P String) := [("g_iw_merge", cmdMerge), ("g_iw_store", cmdStore), ("g_iw_native", cmdNative)]

end Ska.Drv.WrapperGen
