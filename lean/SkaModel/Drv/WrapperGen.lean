import SkaModel.Core.Proto
import SkaModel.Gen.WrapperGen

/-! Driver command executing the *generated* new-training-record block of `IndexClassifierWrapper.partial_fit`
(`Gen/WrapperGen.lean`): `g_iw_merge <unique> <idx_> <y_> <sw_?> <add_idx> <add_y> <add_sw?>` (lists as `<n> x_1 … x_n`,
an optional weight list as `0` / `1 <list>`; labels and weights are integers) prints `ok <idx> | <y> | <sw>` or `err <enum>`. -/

namespace Ska.Drv.WrapperGen
open Ska Ska.Proto Ska.IW Ska.Gen.IW

def optList : P (Option (List Int)) := do
  if (← bool) then
    let l ← listOf int
    pure (some l)
  else pure none

def showErr : Err → String
  | .value => "value" | .index => "index" | .notFitted => "notfitted" | .attr => "attr"
  | .mixed => "mixed" | .nan => "nan" | .param => "param"

def cmdMerge : P String := do
  let u ← bool
  let idx_ ← listOf int
  let y_ ← listOf int
  let sw_ ← optList
  let addIdx ← listOf int
  let addY ← listOf int
  let addSw ← optList
  match partial_fit.merge u idx_ y_ sw_ addIdx addY addSw with
  | .error e => pure s!"err {showErr e}"
  | .ok d =>
    let sw := match d.sw with | none => "none" | some w => showInts w
    pure s!"ok {showInts d.idx} | {showInts d.y} | {sw}"

def handlers : List (String × P String) := [("g_iw_merge", cmdMerge)]

end Ska.Drv.WrapperGen
