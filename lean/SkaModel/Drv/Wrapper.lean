import SkaModel.Core.Proto
import SkaModel.Core.Wrapper

/-! Driver commands for the wrapper strategies (C20). One self-contained case per line. -/

namespace Ska.Drv.Wrapper
open Ska Ska.Proto Ska.Wrapper

/-- `arraysplit <n> <njobs:int> <cpu>` → `chunks=<k> sizes…` for `n` candidates -/
def cmdArraySplit : P String := do
  let n ← nat
  let nj ← int
  let cpu ← nat
  let _ ← (do let t ← tok; if t = "sorted" then pure () else failure) <|> pure ()
  let k := nChunks nj n cpu
  -- numpy's section sizes are already non-increasing, so the sorted multiset is the list itself
  pure s!"chunks={k} {showNats (sectionSizes n k)}"

/-- `subsize <m> <ncand> <cand…> <sub…>` → `size=<k> choice=<0|1>` -/
def cmdSubSize : P String := do
  let m ← nat
  let cand ← listOf nat
  let sub ← listOf nat
  let k := subSize m cand.length
  pure s!"size={k} choice={if choiceOkB cand k sub then 1 else 0}"

/-- `subrow <n> <cand…> <sub…> <inner row: n optfloats>` → the caller-space row -/
def cmdSubRow : P String := do
  let n ← nat
  let cand ← listOf nat
  let sub ← listOf nat
  let inner ← many optFloat n
  let ninf : Float := -(1.0 / 0.0)
  pure (showOptFloats (subRowCode ninf n cand sub inner))

/-- `subsal <labeled…> <sub…> <q…>` → `sal | inner candidates | expand q` -/
def cmdSubSal : P String := do
  let labeled ← listOf nat
  let sub ← listOf nat
  let q ← listOf nat
  let sal := subsetAndLabeled labeled sub
  pure (showNats sal ++ " | " ++ showNats (innerCands sal sub) ++ " | " ++ showNats (expand sal q))

def handlers : List (String × P String) :=
  [ ("arraysplit", cmdArraySplit), ("subsize", cmdSubSize), ("subrow", cmdSubRow), ("subsal", cmdSubSal) ]

end Ska.Drv.Wrapper
