import SkaModel.Core.Proto

/-! Driver commands for the `Wrapper` model family. One self-contained case per line. -/

namespace Ska.Drv.Wrapper
open Ska Ska.Proto

def handlers : List (String × P String) := []

end Ska.Drv.Wrapper
