import SkaModel.Core.Proto

/-! Driver commands for the `Classifier` model family. One self-contained case per line. -/

namespace Ska.Drv.Classifier
open Ska Ska.Proto

def handlers : List (String × P String) := []

end Ska.Drv.Classifier
