import SkaModel.Core.Proto
import SkaModel.Core.Classifier

/-! Driver commands for the `Classifier` model family (C11). One self-contained case per line.
Matrices travel row-major; floats as bit patterns. -/

namespace Ska.Drv.Classifier
open Ska Ska.Classifier Ska.Proto

def showMat (M : List (List Float)) : String := " ; ".intercalate (M.map showFloats)

def showClfErr : ClfErr → String
  | .prior => "err prior"
  | .shape => "err shape"

def showLabels (l : List (Option Int)) : String :=
  " ".intercalate (l.map (fun x => match x with | some c => toString c | none => "none"))

/-- `s <c>` or `a <m> p1..pm` -/
def priorSpec : P (PriorSpec Float) := do
  match (← tok) with
  | "s" => do let c ← float; pure (.scalar c)
  | "a" => do let l ← listOf float; pure (.array l)
  | _ => failure

def mat (p : P α) (r c : Nat) : P (List (List α)) := do
  let flat ← many p (r * c)
  pure (chunk c r flat)

/-- `normfreq <k> <n> F(n*k) <prior-spec>` : `ClassFrequencyEstimator.predict_proba` from frequencies. -/
def cmdNormFreq : P String := do
  let k ← nat; let n ← nat
  let F ← mat float n k
  let ps ← priorSpec
  match classPrior k ps with
  | .error e => pure (showClfErr e)
  | .ok prior => pure ("ok " ++ showMat (normalizeFreq k F prior))

/-- `pwcproba <k> <n> <m> K(n*m) V(m*k) <prior-spec>` : `F = K @ V`, then normalisation.
Output `ok F | P`. -/
def cmdPwcProba : P String := do
  let k ← nat; let n ← nat; let m ← nat
  let K ← mat float n m
  let V ← mat float m k
  let ps ← priorSpec
  let F := pwcFreq k K V
  match classPrior k ps with
  | .error e => pure (showClfErr e)
  | .ok prior => pure ("ok " ++ showMat F ++ " | " ++ showMat (normalizeFreq k F prior))

/-- `pwcproba_nn <k> <n> <m> K V <nn> idx(n*nn) <prior-spec>` : the `n_neighbors` branch. -/
def cmdPwcProbaNN : P String := do
  let k ← nat; let n ← nat; let m ← nat
  let K ← mat float n m
  let V ← mat float m k
  let nn ← nat
  let idx ← mat nat n nn
  let ps ← priorSpec
  let F := pwcFreqNeighbors k K V idx
  match classPrior k ps with
  | .error e => pure (showClfErr e)
  | .ok prior => pure ("ok " ++ showMat F ++ " | " ++ showMat (normalizeFreq k F prior))

/-- `mmcproba <k> <m> <t> R(t*m) V(t*k) <n> S(n*m) <prior-spec>` : mixture-model classifier. -/
def cmdMmcProba : P String := do
  let k ← nat; let m ← nat; let t ← nat
  let R ← mat float t m
  let V ← mat float t k
  let n ← nat
  let S ← mat float n m
  let ps ← priorSpec
  let Fc := mmcComponents k m R V
  let F := mmcFreq k S Fc
  match classPrior k ps with
  | .error e => pure (showClfErr e)
  | .ok prior => pure ("ok " ++ showMat F ++ " | " ++ showMat (normalizeFreq k F prior))

/-- `predict <k> cls(k ints) <n> P(n*k) C(k*k) noise(n*k)` : `SkactivemlClassifier.predict`.
Output `costs | labels`. -/
def cmdPredict : P String := do
  let k ← nat
  let cls ← many int k
  let n ← nat
  let Pm ← mat float n k
  let C ← mat float k k
  let noise ← mat float n k
  pure (showMat (expectedCosts k Pm C) ++ " | " ++ showLabels (predictDecision cls Pm C noise))

/-- `decide <k> cls(k ints) <n> costs(n*k) noise(n*k)` : the decision step alone on captured costs
(`rand_argmin(costs, axis=1)` + decoding). -/
def cmdDecide : P String := do
  let k ← nat
  let cls ← many int k
  let n ← nat
  let costs ← mat float n k
  let noise ← mat float n k
  pure (showLabels (decode cls (randArgminRows (costs.map (fun r => r.map some)) noise)))

/-- `skproba <k> cls(k ints) <fitted> <m> est(m ints) <n> <w> estP(n*w, nan allowed) counts(k)`
: `SklearnClassifier.predict_proba`. Output `ok <class_indices> | P` or `err shape`. -/
def cmdSkProba : P String := do
  let k ← nat
  let cls ← many int k
  let fitted ← bool
  let est ← listOf int
  let n ← nat; let w ← nat
  let estP ← mat optFloat n w
  let counts ← many float k
  let ci := classIndices cls est
  match sklearnPredictProba k n fitted estP ci counts with
  | .error e => pure (showClfErr e)
  | .ok Q => pure ("ok " ++ showNats ci ++ " | " ++ showMat Q)

/-- `skpredict <k> cls(k) <fitted> <hasCost> <n> estPred(n ints) P(n*k) C(k*k) noise(n*k)` -/
def cmdSkPredict : P String := do
  let k ← nat
  let cls ← many int k
  let fitted ← bool; let hasCost ← bool
  let n ← nat
  let estPred ← many int n
  let Pm ← mat float n k
  let C ← mat float k k
  let noise ← mat float n k
  pure (showLabels (sklearnPredict cls fitted hasCost estPred Pm C noise))

/-- `enshard <k> <n> <e> preds(n*e)` : hard voting on the members' predicted class indices. -/
def cmdEnsHard : P String := do
  let k ← nat; let n ← nat; let e ← nat
  let preds ← mat nat n e
  pure (showMat (ensembleHard (α := Float) k preds))

/-- `enssoft <k> <n> <e> Ps(n*e*k)` : soft voting; per sample the `e` member rows. -/
def cmdEnsSoft : P String := do
  let k ← nat; let n ← nat; let e ← nat
  let Ps ← many (mat float e k) n
  pure (showMat (ensembleSoft k Ps))

/-- `costperm <k> cls(k ints, declared order) C(k*k, declared order)` : `cost_matrix_`. -/
def cmdCostPerm : P String := do
  let k ← nat
  let cls ← many int k
  let C ← mat float k k
  pure (showMat (permuteCost cls C))

def handlers : List (String × P String) :=
  [ ("normfreq", cmdNormFreq), ("pwcproba", cmdPwcProba), ("pwcproba_nn", cmdPwcProbaNN),
    ("mmcproba", cmdMmcProba), ("predict", cmdPredict), ("decide", cmdDecide),
    ("skproba", cmdSkProba), ("skpredict", cmdSkPredict), ("enshard", cmdEnsHard),
    ("enssoft", cmdEnsSoft), ("costperm", cmdCostPerm) ]

end Ska.Drv.Classifier
