import SkaModel.Core.Proto
import SkaModel.Core.Selection
import SkaModel.Core.MultiAnnot

/-! Driver commands for the `MultiAnnot` model family (C07). One self-contained case per line.

Encodings: Boolean matrix `<r> <c> b…` (row-major `0/1`); `candidates`: `N` | `I <n> i…` | `F <n>`;
`annotators`: `N` | `I <n> i…` | `M <r> <c> b…`; `n_annotators_per_sample`: `S <n>` | `L <n> x…`. -/

namespace Ska.Drv.MultiAnnot
open Ska Ska.Proto Ska.MultiAnnot

def boolMat : P (List (List Bool)) := do
  let r ← nat; let c ← nat
  let l ← many bool (r * c)
  pure (chunk c r l)

def candP : P Cand := do
  match (← tok) with
  | "N" => pure .all
  | "I" => do let l ← listOf nat; pure (.idx l)
  | "F" => do let n ← nat; pure (.feat n)
  | _ => failure

def annotP : P Annot := do
  match (← tok) with
  | "N" => pure .all
  | "I" => do let l ← listOf nat; pure (.idx l)
  | "M" => do let M ← boolMat; pure (.mat M)
  | _ => failure

def prefP : P Pref := do
  match (← tok) with
  | "S" => do let n ← nat; pure (.int n)
  | "L" => do let l ← listOf nat; pure (.arr l)
  | _ => failure

def showMap : Option (List Nat) → String
  | none => "map none"
  | some mp => s!"map {mp.length} " ++ showNats mp

def showA (m : Nat) (A : List (List Bool)) : String :=
  s!"A bool {A.length} {m} " ++ showBools A.flatten

def showErr : MAErr → String
  | .nonTermination => "err non-termination"
  | .index => "err index"
  | .infinite => "err infinite"
  | .batchSize => "err batch-size"
  | .other => "err other"

def showSelErr : SelErr → String
  | .batchSize => "err batch-size"
  | .method => "err method"
  | .infinite => "err infinite"
  | .mass => "err mass"
  | .oracle => "err oracle"

def negInf : Float := -(1.0 / 0.0)

/-- `ma_transform <nS> <m> <unl> <cand> <annot> <batch>` -/
def cmdTransform : P String := do
  let nS ← nat; let m ← nat
  let unl ← boolMat
  let cand ← candP; let annot ← annotP
  let b ← nat
  let pairs := nCandidatePairs nS m unl cand annot
  let (mp, A) := transformCandAnnot nS m unl cand annot
  pure (s!"pairs {pairs} b {clipBatch b pairs} " ++ showMap mp ++ " " ++ showA m A)

/-- `ma_assign <b> <n> nmax… <n> pref… <fuel>` -/
def cmdAssign : P String := do
  let b ← nat
  let nmax ← listOf nat
  let pref ← listOf nat
  let fuel ← nat
  pure (match nToAssign fuel b nmax pref with
    | some r => "ok " ++ showNats r
    | none => "err non-termination")

def showPairs (l : List (Nat × Nat)) : String :=
  " ".intercalate (l.map (fun p => s!"{p.1} {p.2}"))

/-- `ma_wrapper <nS> <m> <unl> <cand> <annot> <batch> <pref> <k> innerPicks… <r> <c> innerU…
<n> au… <cnt> <len> noises…` -/
def cmdWrapper : P String := do
  let nS ← nat; let m ← nat
  let unl ← boolMat
  let cand ← candP; let annot ← annotP
  let b ← nat
  let pref ← prefP
  let picks ← listOf nat
  let r ← nat; let c ← nat
  let innerU ← many (many optFloat c) r
  let au ← listOf float
  let cnt ← nat; let len ← nat
  let noises ← many (many float len) cnt
  pure (match wrapperQuery (β := Float) negInf Nat.toFloat nS m unl cand annot b pref picks innerU au noises with
    | .error e => showErr e
    | .ok res =>
      s!"ok b {res.batch} " ++ showMap res.mapping ++ " " ++ showA m res.A ++ " pref " ++ showNats res.pref
        ++ " nas " ++ showNats res.nAs ++ " | " ++ showPairs res.picks ++ " | "
        ++ " ; ".intercalate (res.rows.map showOptFloats))

/-- `ma_iet <nS> <m> <unl> <cand> <annot> <b:int> <n> U… <cnt> <len> noises…` -/
def cmdIet : P String := do
  let nS ← nat; let m ← nat
  let unl ← boolMat
  let cand ← candP; let annot ← annotP
  let b ← int
  let U ← listOf optFloat
  let cnt ← nat; let len ← nat
  let noises ← many (many float len) cnt
  let (mp, A) := transformCandAnnot nS m unl cand annot
  let hdr := showMap mp ++ " " ++ showA m A
  if b < 1 then
    pure (if hasInf Float.isInf (ietUtilities nS m unl cand annot U) then showSelErr .infinite else showSelErr .batchSize)
  else
    pure (match ietQuery (β := Float) Float.isInf nS m unl cand annot b.toNat U noises with
      | .error e => showSelErr e
      | .ok rs =>
        "ok " ++ hdr ++ " | " ++ showPairs (rs.map (fun r => unravel2 m r.1)) ++ " | "
          ++ " ; ".intercalate (rs.map (fun r => showOptFloats r.2)))

def handlers : List (String × P String) :=
  [ ("ma_transform", cmdTransform), ("ma_assign", cmdAssign), ("ma_wrapper", cmdWrapper),
    ("ma_iet", cmdIet) ]

end Ska.Drv.MultiAnnot
