import SkaModel.Core.Proto

/-! Driver commands for the `MultiAnnot` model family. One self-contained case per line. -/

namespace Ska.Drv.MultiAnnot
open Ska Ska.Proto

def handlers : List (String × P String) := []

end Ska.Drv.MultiAnnot
