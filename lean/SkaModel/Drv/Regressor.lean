import SkaModel.Core.Proto
import SkaModel.Core.Regressor

/-! Driver commands for the `Regressor` model family (C15). One self-contained case per line. -/

namespace Ska.Drv.Regressor
open Ska Ska.Classifier Ska.Regressor Ska.Proto

def showMat (M : List (List Float)) : String := " ; ".intercalate (M.map showFloats)

/-- `nicpost <hasW> <m> krow(m) y(m) w(m) <kappa0> <nu0> <mu0> <sigmaSq0>` : one query point.
Output `N mu var | kappa nu mu sigmaSq | scale` with `scale = sqrt((1+κ)/κ·σ²)`. (`m = 0`: neutral update.) -/
def cmdNicPost : P String := do
  let hasW ← bool
  let m ← nat
  let krow ← many float m
  let y ← many float m
  let w ← many float m
  let k0 ← float; let n0 ← float; let m0 ← float; let s0 ← float
  let wo := if hasW then some w else none
  let u := updateParams wo krow y
  let post := combineParams ⟨k0, n0, m0, s0⟩ u
  let s2 := scaleSq post
  pure (showFloats [u.kappa, u.mu, u.sigmaSq] ++ " | " ++ showFloats [post.kappa, post.nu, post.mu, post.sigmaSq]
    ++ " | " ++ showFloats [Float.sqrt s2])

/-- `labelstats <n> ys` : `_label_mean _label_std`. -/
def cmdLabelStats : P String := do
  let ys ← listOf float
  pure (showFloats [labelMean ys, labelStd Float.sqrt ys])

/-- `wrappred <fitted> <returnStd> <nq> em(nq) <hasEs> es(nq) <nl> ys(nl)` : `SklearnRegressor.predict`. -/
def cmdWrapPred : P String := do
  let fitted ← bool; let rs ← bool
  let nq ← nat
  -- a wrapped estimator may itself return NaN (e.g. BayesianRidge on constant labels with weights): passed through
  let nanF : Option Float → Float := fun x => match x with | some v => v | none => (0.0 : Float) / 0.0
  let em := (← many optFloat nq).map nanF
  let hasEs ← bool
  let es := (← many optFloat nq).map nanF
  let ys ← listOf float
  let (m, s) := wrapperPredict Float.sqrt fitted em (if hasEs then some es else none) ys nq rs
  pure (showFloats m ++ " | " ++ (match s with | none => "none" | some l => showFloats l))

/-- `normfallback <nq> <n> ys` : `SklearnNormalRegressor.predict(return_std=True)` with an unfitted estimator. -/
def cmdNormFallback : P String := do
  let nq ← nat
  let ys ← listOf float
  let tiny : Float := Float.ofBits 0x0010000000000000   -- np.finfo(float).tiny = 2.2250738585072014e-308
  let (m, s) := normalFallbackPredict Float.sqrt tiny ys nq
  pure (showOptFloats m ++ " | " ++ showOptFloats s)

/-- `predictout <rs> <re> <nq> mean(nq) std(nq) ent(nq)` : shape of `ProbabilisticRegressor.predict`. -/
def cmdPredictOut : P String := do
  let rs ← bool; let re ← bool
  let nq ← nat
  let mean ← many optFloat nq
  let std ← many optFloat nq
  let ent ← many optFloat nq
  match predictOut ⟨mean, std, ent⟩ rs re with
  | .single m => pure ("single " ++ showOptFloats m)
  | .tuple ps => pure ("tuple " ++ " ; ".intercalate (ps.map showOptFloats))

/-- `sampley <s> <q> draws(s*q)` : `rvs(size=(s, q)).T`. -/
def cmdSampleY : P String := do
  let s ← nat; let q ← nat
  let flat ← many float (s * q)
  pure (showMat (sampleY q (chunk q s flat)))

/-- `fallbacksample <q> <s> z(q*s) <std> <mean>`. -/
def cmdFallbackSample : P String := do
  let q ← nat; let s ← nat
  let flat ← many float (q * s)
  let std ← float; let mean ← float
  pure (showMat (fallbackSample (chunk s q flat) std mean))

def handlers : List (String × P String) :=
  [ ("nicpost", cmdNicPost), ("labelstats", cmdLabelStats), ("wrappred", cmdWrapPred),
    ("predictout", cmdPredictOut), ("normfallback", cmdNormFallback), ("sampley", cmdSampleY), ("fallbacksample", cmdFallbackSample) ]

end Ska.Drv.Regressor
