import SkaModel.Core.Proto

/-! Driver commands for the `Regressor` model family. One self-contained case per line. -/

namespace Ska.Drv.Regressor
open Ska Ska.Proto

def handlers : List (String × P String) := []

end Ska.Drv.Regressor
