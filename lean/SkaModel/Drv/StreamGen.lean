import SkaModel.Core.Proto
import SkaModel.Core.Budget
import SkaModel.Core.Stream
import SkaModel.Core.PyRt
import SkaModel.Gen.StreamBM
import SkaModel.Drv.Budget

/-! Driver commands that execute the *generated* stream models (`Gen/StreamBM.lean`, translated from the
current Python source on every run). Command `g_<cmd>` takes exactly the input of `<cmd>` in `Drv/Budget.lean`
and prints in the same format, so the harness compares both with the same implementation transcript. -/

namespace Ska.Drv.StreamGen
open Ska Ska.Proto Ska.Budget Ska.PyRt Ska.Gen.BM Ska.Drv.Budget

def noQf : List (Option Float) → Option Float := fun _ => none
def zero : Nat → Float := fun _ => 0

def zObj (w b s v nc th : Float) : ZObj Float :=
  { w := w, budget_ := b, s := s, v := v, delta := 0, theta := th, nclasses := nc, u_t_ := 0, theta_ := th, rng := 0 }

def showZO (o : ZObj Float) : String := s!"{showFloat o.u_t_} {showFloat o.theta_} {o.rng}"
def showDO (o : DObj Float) : String := s!"{o.u_} {o.t_} {showFloat o.theta_} {o.rng}"
def showCO (o : CObj Float) : String := s!"{o.observed_samples_} {o.queried_samples_} {o.rng}"

def zMgr (q : ZObj Float → List (Option Float) → List Nat × ZObj Float)
    (u : ZObj Float → Nat → List Nat → Except BErr (ZObj Float)) : Mgr (ZObj Float) (Option Float) :=
  { query := q, update := fun s c idx => u s c.length idx }

def cmdFixed : P String := do
  let w ← float; let b ← float; let nc ← float
  let cs ← listOf chunkP
  let us ← listOf optFloat
  let M := zMgr (FixedUncertaintyBudgetManager.query_by_utility zero zero noQf) (FixedUncertaintyBudgetManager.update zero zero noQf)
  pure (render (runCase M showZO noX (zObj w b 0 0 nc 0) cs us))

def cmdVar : P String := do
  let w ← float; let b ← float; let s ← float; let th ← float
  let cs ← listOf chunkP
  let us ← listOf optFloat
  let M := zMgr (VariableUncertaintyBudgetManager.query_by_utility zero zero noQf) (VariableUncertaintyBudgetManager.update zero zero noQf)
  pure (render (runCase M showZO noX (zObj w b s 0 0 th) cs us))

def cmdRandVar : P String := do
  let w ← float; let b ← float; let s ← float; let th ← float
  let cs ← listOf chunkP
  let us ← listOf optFloat
  let nz ← listOf float
  let nrm := stream nz
  let M := zMgr (RandomVariableUncertaintyBudgetManager.query_by_utility nrm zero noQf) (RandomVariableUncertaintyBudgetManager.update nrm zero noQf)
  pure (render (runCase M showZO noX (zObj w b s 0 0 th) cs us))

def cmdSplit : P String := do
  let w ← float; let b ← float; let s ← float; let v ← float; let th ← float
  let cs ← listOf chunkP
  let us ← listOf optFloat
  let uz ← listOf float
  let uni := stream uz
  let M := zMgr (SplitBudgetManager.query_by_utility zero uni noQf) (SplitBudgetManager.update zero uni noQf)
  pure (render (runCase M showZO noX (zObj w b s v 0 th) cs us))

def cmdRandom : P String := do
  let w ← float; let b ← float
  let cs ← listOf chunkP
  let us ← listOf optFloat
  let uz ← listOf float
  let uni := stream uz
  let M := zMgr (RandomBudgetManager.query_by_utility zero uni noQf) (RandomBudgetManager.update zero uni noQf)
  pure (render (runCase M showZO noX (zObj w b 0 0 0 0) cs us))

def cmdDb : P String := do
  let b ← float; let s ← float; let th ← float
  let cs ← listOf chunkP
  let us ← listOf optFloat
  let nz ← listOf float
  let nrm := stream nz
  let M : Mgr (DObj Float) (Option Float) :=
    { query := DensityBasedSplitBudgetManager.query_by_utility nrm zero noQf,
      update := fun o c idx => DensityBasedSplitBudgetManager.update nrm zero noQf o c.length idx }
  let o : DObj Float := { budget_ := b, s := s, delta := 0, theta := th, u_ := 0, t_ := 0, theta_ := th, rng := 0 }
  pure (render (runCase M showDO noX o cs us))

def showQO (o : QObj Float) : String := s!"{o.observed_samples_} {o.queried_samples_} {showOptFloats o.history_sorted_}"

def cmdBiqf : P String := do
  let w ← nat; let wtol ← float; let b ← float
  let cs ← listOf chunkP
  let us ← listOf optFloat
  let ths ← listOf optFloat
  let table := ((windows w [] us).map showOptFloats).zip ths
  let qf : List (Option Float) → Option Float := fun h => (table.lookup (showOptFloats h)).getD none
  let M : Mgr (QObj Float) (Option Float) :=
    { query := BalancedIncrementalQuantileFilter.query_by_utility zero zero qf,
      update := fun o c idx => BalancedIncrementalQuantileFilter.update zero zero qf o c.length idx c }
  let o : QObj Float := { w := w, w_tol := wtol, budget_ := b, observed_samples_ := 0, queried_samples_ := 0, history_sorted_ := [] }
  pure (render (runCase M showQO noX o cs us))

def cmdSrs : P String := do
  let allow ← bool; let b ← float
  let cs ← listOf chunkP
  let uz ← listOf float
  let uni := stream uz
  let M : Mgr (CObj Float) Unit :=
    { query := fun o c => let r := StreamRandomSampling.query zero uni noQf o c.length; (r.1.1, r.2),
      update := fun o c idx => StreamRandomSampling.update zero uni noQf o c.length idx }
  let qx : CObj Float → List Unit → String :=
    fun o c => " " ++ showFloats (StreamRandomSampling.query zero uni noQf o c.length).1.2 ++ " |"
  let o : CObj Float := { budget_ := b, allow_exceeding_budget := allow, observed_samples_ := 0, queried_samples_ := 0, rng := 0 }
  pure (render (runCase M showCO qx o cs (List.replicate (total cs) ())))

def cmdPer : P String := do
  let b ← float
  let cs ← listOf chunkP
  let M : Mgr (CObj Float) Unit :=
    { query := fun o c => let r := PeriodicSampling.query zero zero noQf o c.length; (r.1.1, r.2),
      update := fun o c idx => PeriodicSampling.update zero zero noQf o c.length idx }
  let qx : CObj Float → List Unit → String :=
    fun o c => " " ++ showFloats (PeriodicSampling.query zero zero noQf o c.length).1.2 ++ " |"
  let o : CObj Float := { budget_ := b, allow_exceeding_budget := false, observed_samples_ := 0, queried_samples_ := 0, rng := 0 }
  pure (render (runCase M showCO qx o cs (List.replicate (total cs) ())))

def handlers : List (String × P String) :=
  [ ("g_bm_fixed", cmdFixed), ("g_bm_var", cmdVar), ("g_bm_randvar", cmdRandVar), ("g_bm_split", cmdSplit),
    ("g_bm_random", cmdRandom), ("g_bm_dbsplit", cmdDb), ("g_bm_biqf", cmdBiqf), ("g_sb_random", cmdSrs), ("g_sb_periodic", cmdPer) ]

end Ska.Drv.StreamGen
