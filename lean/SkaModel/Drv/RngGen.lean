import SkaModel.Core.Proto
import SkaModel.Gen.RngGen

/-! Driver command executing the *generated* `check_random_state` (`Gen/RngGen.lean`): `g_crs` takes the input of `crs`
(`<none | int | inst> <mult | -> <draw>`) and prints in the same format. -/

namespace Ska.Drv.RngGen
open Ska Ska.Proto Ska.Rng Ska.PyRng Ska.Gen.Rng

def cmdCrs : P String := do
  let kind ← tok
  let mt ← tok
  let draw ← nat
  let mult : Option Nat := mt.toNat?
  -- `mk n` is tagged by its seed: the stream of `RandomState(n)` starts with `n`; the given integer is the tag 4000000000 (no derived seed reaches it) and its generator starts with `draw`
  let mk : Nat → Stream := fun n i => if i = 0 then (if kind = "int" && n = 4000000000 then draw else n) else 0
  let param : RSParam ← (match kind with
    | "none" => pure RSParam.none
    | "int" => pure (RSParam.int 4000000000)
    | "inst" => pure (RSParam.inst ⟨fun _ => draw, true, 0⟩)
    | _ => failure : P RSParam)
  let r := check_random_state mk ⟨fun _ => 0, true, 0⟩ param mult
  let seedTxt :=
    if r.1.callers then "-"
    else if kind = "int" && mult.isNone then "given"
    else toString (r.1.stream 0)
  pure s!"seed {seedTxt} shared {if r.1.callers then 1 else 0} advance {r.2}"

def handlers : List (String × P String) := [("g_crs", cmdCrs)]

end Ska.Drv.RngGen
