import SkaModel.Core.Proto
import SkaModel.Core.Selection
import SkaModel.Core.SeqChoice

/-! Driver commands for the selection primitives (C18). One self-contained case per line. -/

namespace Ska.Drv.Sel
open Ska Ska.Proto

def showRows (rs : List (Nat × List (Option Float))) : String :=
  "ok " ++ showNats (rs.map (·.1)) ++ " | " ++ " ; ".intercalate (rs.map (fun r => showOptFloats r.2))

def showErr : SelErr → String
  | .batchSize => "err batch-size"
  | .method => "err method"
  | .infinite => "err infinite"
  | .mass => "err mass"
  | .oracle => "err oracle"

/-- `randargmax <n> a… <n> noise…` -/
def cmdRandArg (isMax : Bool) : P String := do
  let a ← listOf optFloat
  let noise ← listOf float
  pure (toString (if isMax then randArgmax a noise else randArgmin a noise))

/-- `randargmax_rows <r> <c> a(r*c)… noise(r*c)…` (axis=1) -/
def cmdRandArgRows (isMax : Bool) : P String := do
  let r ← nat; let c ← nat
  let a ← many optFloat (r*c)
  let noise ← many float (r*c)
  let rows := chunk c r a
  let nz := chunk c r noise
  pure (showNats (if isMax then randArgmaxRows rows nz else randArgminRows rows nz))

/-- `randargmax_flat2 <r> <c> a… noise…` (axis=None on a 2-d array → unravelled pair) -/
def cmdRandArgFlat2 (isMax : Bool) : P String := do
  let r ← nat; let c ← nat
  let a ← many optFloat (r*c)
  let noise ← many float (r*c)
  let i := if isMax then randArgmax a noise else randArgmin a noise
  let p := unravel2 c i
  pure s!"{p.1} {p.2}"

/-- `simplebatch <max|proportional|other> <b:int> <n> u… <k> noise(k*n)… <m> choice…` -/
def cmdSimpleBatch : P String := do
  let ms ← tok
  let b ← int
  let u ← listOf optFloat
  let k ← nat
  let noises ← many (many float u.length) k
  let choice ← listOf nat
  if hasInf Float.isInf u then
    pure (showErr .infinite)
  else if b < 1 then pure (showErr .batchSize)
  else
    match ms with
    | "max" =>
      pure (match simpleBatch (β := Float) Float.isInf u b.toNat .max noises choice with
        | .ok rs => showRows rs | .error e => showErr e)
    | "proportional" =>
      pure (match simpleBatch (β := Float) Float.isInf u b.toNat .proportional noises choice with
        | .ok rs => showRows rs | .error e => showErr e)
    | _ => pure (showErr .method)

/-- `choicenr <size> <p…> <rounds> (<us…>)×rounds` → `picks … | enough=<0|1>` or `none`
(numpy's `choice(n, size, replace=False, p=p)` on the weight vector and the uniform draws of its rounds) -/
def cmdChoiceNR : P String := do
  let size ← nat
  let p ← listOf float
  let r ← nat
  let uss ← many (listOf float) r
  let enough := decide (size ≤ (Ska.Seq.posIdx p).length)
  match Ska.Seq.choiceNR p size uss [] with
  | some res => pure s!"picks {showNats res} | enough={if enough then 1 else 0}"
  | Option.none => pure s!"none | enough={if enough then 1 else 0}"

/-- `simplebatchprop <b:int> <n> u… <rounds> (<us…>)×rounds`: the proportional branch with numpy's `choice` computed
by the model from the uniform draws -/
def cmdSimpleBatchProp : P String := do
  let b ← int
  let u ← listOf optFloat
  let r ← nat
  let uss ← many (listOf float) r
  if hasInf Float.isInf u then pure (showErr .infinite)
  else if b < 1 then pure (showErr .batchSize)
  else
    pure (match Ska.Seq.simpleBatchProp Float.isInf u b.toNat uss with
      | .ok rs => showRows rs | .error e => showErr e)

def handlers : List (String × P String) :=
  [ ("choicenr", cmdChoiceNR), ("simplebatchprop", cmdSimpleBatchProp), ("randargmax", cmdRandArg true), ("randargmin", cmdRandArg false),
    ("randargmax_rows", cmdRandArgRows true), ("randargmin_rows", cmdRandArgRows false),
    ("randargmax_flat2", cmdRandArgFlat2 true), ("randargmin_flat2", cmdRandArgFlat2 false),
    ("simplebatch", cmdSimpleBatch) ]

end Ska.Drv.Sel
