import SkaModel.Core.Proto
import SkaModel.Core.Budget
import SkaModel.Core.Stream

/-! Driver commands for the `Budget` model family (budget managers, baseline stream strategies).
One complete stream per line:

`<cmd> <params…> <k> {<size> <0|1 [<m> idx…]>}×k  <inputs…>`

Every chunk is processed as `idx = query(chunk); update(chunk, idx)`; a chunk with flag `1` passes the
explicit index list to `update` instead of the query result. Output: one segment per chunk, joined by
` ; `: `<queried indices> | [<utilities> |] ok <state>`; a failing update prints `err index-error` and
ends the case. Doubles travel as bit patterns. -/

namespace Ska.Drv.Budget
open Ska Ska.Proto Ska.Budget

instance : NatCast Float := ⟨Float.ofNat⟩

structure Chunk where
  size : Nat
  ovr : Option (List Nat)

def chunkP : P Chunk := do
  let n ← nat
  let o ← bool
  if o then
    let l ← listOf nat
    pure ⟨n, some l⟩
  else pure ⟨n, none⟩

def total (cs : List Chunk) : Nat := (cs.map (·.size)).foldl (· + ·) 0

def stream (l : List Float) : Nat → Float :=
  let a := l.toArray
  fun i => a.getD i 0

/-- run the chunks; `qx` renders what else `query` returns (utilities of the baseline strategies) -/
def runCase {σ ι : Type} (M : Mgr σ ι) (showS : σ → String) (qx : σ → List ι → String) :
    σ → List Chunk → List ι → List String
  | _, [], _ => []
  | s, c :: cs, xs =>
    let chunk := xs.take c.size
    let q := M.query s chunk
    let idx := c.ovr.getD q.1
    let head := showNats q.1 ++ " |" ++ qx s chunk
    match M.update q.2 chunk idx with
    | .ok s' => (head ++ " ok " ++ showS s') :: runCase M showS qx s' cs (xs.drop c.size)
    | .error _ => [head ++ " err index-error"]

def render (l : List String) : String := " ; ".intercalate l

def noX {σ ι : Type} (_ : σ) (_ : List ι) : String := ""

def showZ (s : ZState Float) : String := s!"{showFloat s.u} {showFloat s.theta} {s.rng}"
def showD (s : DState Float) : String := s!"{s.u} {s.t} {showFloat s.theta} {s.rng}"
def showQ (s : QState Float) : String := s!"{s.obs} {s.qd} {showOptFloats s.hist}"
def showC (s : CState) : String := s!"{s.obs} {s.qd} {s.rng}"

/-- `bm_fixed w b nc  chunks  utils` -/
def cmdFixed : P String := do
  let w ← float; let b ← float; let nc ← float
  let cs ← listOf chunkP
  let us ← listOf optFloat
  let p : ZParams Float := { w := w, b := b, s := 0, v := 0, nc := nc }
  pure (render (runCase (fixedMgr p) showZ noX { u := 0, theta := 0, rng := 0 } cs us))

/-- `bm_var w b s theta0  chunks  utils` -/
def cmdVar : P String := do
  let w ← float; let b ← float; let s ← float; let th ← float
  let cs ← listOf chunkP
  let us ← listOf optFloat
  let p : ZParams Float := { w := w, b := b, s := s, v := 0, nc := 0 }
  pure (render (runCase (varMgr p) showZ noX { u := 0, theta := th, rng := 0 } cs us))

/-- `bm_randvar w b s theta0  chunks  utils  normal-stream` -/
def cmdRandVar : P String := do
  let w ← float; let b ← float; let s ← float; let th ← float
  let cs ← listOf chunkP
  let us ← listOf optFloat
  let nz ← listOf float
  let p : ZParams Float := { w := w, b := b, s := s, v := 0, nc := 0 }
  pure (render (runCase (randVarMgr p (stream nz)) showZ noX { u := 0, theta := th, rng := 0 } cs us))

/-- `bm_split w b s v theta0  chunks  utils  uniform-stream` -/
def cmdSplit : P String := do
  let w ← float; let b ← float; let s ← float; let v ← float; let th ← float
  let cs ← listOf chunkP
  let us ← listOf optFloat
  let uz ← listOf float
  let p : ZParams Float := { w := w, b := b, s := s, v := v, nc := 0 }
  pure (render (runCase (splitMgr p (stream uz)) showZ noX { u := 0, theta := th, rng := 0 } cs us))

/-- `bm_random w b  chunks  utils  uniform-stream` -/
def cmdRandom : P String := do
  let w ← float; let b ← float
  let cs ← listOf chunkP
  let us ← listOf optFloat
  let uz ← listOf float
  let p : ZParams Float := { w := w, b := b, s := 0, v := 0, nc := 0 }
  pure (render (runCase (randomMgr p (stream uz)) showZ noX { u := 0, theta := 0, rng := 0 } cs us))

/-- `bm_dbsplit b s theta0  chunks  utils  normal-stream` -/
def cmdDb : P String := do
  let b ← float; let s ← float; let th ← float
  let cs ← listOf chunkP
  let us ← listOf optFloat
  let nz ← listOf float
  let p : DParams Float := { b := b, s := s }
  pure (render (runCase (dbMgr p (stream nz)) showD noX { u := 0, t := 0, theta := th, rng := 0 } cs us))

/-- the windows `np.quantile` is called on, in call order, when the utilities `us` arrive -/
def windows (w : Nat) : List (Option Float) → List (Option Float) → List (List (Option Float))
  | _, [] => []
  | h, x :: xs => let h' := pushW w h x; h' :: windows w h' xs

/-- `bm_biqf w w_tol b  chunks  utils  thetas` — `thetas[i]` is the value `np.quantile` returned for
instance `i`; the oracle handed to the model is the finite map window ↦ captured value. -/
def cmdBiqf : P String := do
  let w ← nat; let wtol ← float; let b ← float
  let cs ← listOf chunkP
  let us ← listOf optFloat
  let ths ← listOf optFloat
  let table := ((windows w [] us).map showOptFloats).zip ths
  let qf : List (Option Float) → Option Float := fun h => (table.lookup (showOptFloats h)).getD none
  let p : QParams Float := { w := w, wtol := wtol, b := b }
  pure (render (runCase (biqfMgr p qf) showQ noX { obs := 0, qd := 0, hist := [] } cs us))

/-- `sb_random allow b  chunks  uniform-stream` -/
def cmdSrs : P String := do
  let allow ← bool; let b ← float
  let cs ← listOf chunkP
  let uz ← listOf float
  let uni := stream uz
  let qx : CState → List Unit → String := fun s c => " " ++ showFloats (srsQuery allow b uni s c.length).1.2 ++ " |"
  pure (render (runCase (srsMgr allow b uni) showC qx { obs := 0, qd := 0, rng := 0 } cs (List.replicate (total cs) ())))

/-- `sb_periodic b  chunks` -/
def cmdPer : P String := do
  let b ← float
  let cs ← listOf chunkP
  let qx : CState → List Unit → String := fun s c => " " ++ showFloats (perQuery b s c.length).1.2 ++ " |"
  pure (render (runCase (perMgr b) showC qx { obs := 0, qd := 0, rng := 0 } cs (List.replicate (total cs) ())))

def handlers : List (String × P String) :=
  [ ("bm_fixed", cmdFixed), ("bm_var", cmdVar), ("bm_randvar", cmdRandVar), ("bm_split", cmdSplit),
    ("bm_random", cmdRandom), ("bm_dbsplit", cmdDb), ("bm_biqf", cmdBiqf),
    ("sb_random", cmdSrs), ("sb_periodic", cmdPer) ]

end Ska.Drv.Budget
