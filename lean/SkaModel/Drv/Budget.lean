import SkaModel.Core.Proto

/-! Driver commands for the `Budget` model family. One self-contained case per line. -/

namespace Ska.Drv.Budget
open Ska Ska.Proto

def handlers : List (String × P String) := []

end Ska.Drv.Budget
