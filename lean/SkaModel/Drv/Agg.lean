import SkaModel.Core.Proto

/-! Driver commands for the `Agg` model family. One self-contained case per line. -/

namespace Ska.Drv.Agg
open Ska Ska.Proto

def handlers : List (String × P String) := []

end Ska.Drv.Agg
