import SkaModel.Core.Proto
import SkaModel.Core.Aggregation
import SkaModel.Drv.Label

/-! Driver commands for the `Agg` model family (C17). One self-contained case per line.
Labels / arrays / classes use the token format of `Drv/Label.lean`; weights and noise are doubles
(bit patterns, `nan` for NaN). -/

namespace Ska.Drv.Agg
open Ska Ska.Proto Ska.Label Ska.Agg Ska.Drv.Label

/-- `<cg:0|1> [<kc> <K> classes…]` -/
def classesArg : P (Option (ArrKind × List (Lbl Int))) := do
  let cg ← bool
  if cg then do
    let kc ← kind
    let cls ← listOf lbl
    pure (some (kc, cls))
  else pure none

/-- `0` | `1 <rows> <cols|-> weights…` ↦ rows of optional weights -/
def weightsArg : P (Option (List (List (Option Float)))) := do
  let given ← bool
  if !given then pure none
  else
    let r ← nat
    let ct ← tok
    if ct = "-" then
      let f ← many optFloat r
      pure (some (f.map (fun x => [x])))
    else
      match ct.toNat? with
      | none => failure
      | some c =>
        let f ← many optFloat (r * c)
        pure (some (rowsOf c r f))

/-- encoded rows of an array: 1-d arrays become one column (`y.reshape((-1, 1))`). -/
def encRows (y : Arr Int) (codes : List Int) : List (List Int) :=
  match y.cols with
  | none => codes.map (fun e => [e])
  | some c => rowsOf c y.rows codes

def showMatrix (v : List (List Float)) (k : Nat) : String :=
  s!"ok {v.length} {k} " ++ showFloats v.flatten

/-- `votes <ml|bad> <classes> <arr y> <weights>` → `ok <n> <K> v…` -/
def cmdVotes : P String := do
  let ml ← mlArg
  let classes ← classesArg
  let y ← arr
  let w ← weightsArg
  match encoderFit ml classes y with
  | .error e => pure (showErr e)
  | .ok f =>
    match encoderTransform f y with
    | .error e => pure (showErr e)
    | .ok codes =>
      let k := f.classes.length
      match computeVoteVectors (α := Float) k (encRows y codes) w with
      | .error e => pure (showErr e)
      | .ok v => pure (showMatrix v k).trimAscii.toString

/-- `majority <ml|bad> <classes> <arr y> <weights> <nr> <nc> noise…` → `ok labels…` -/
def cmdMajority : P String := do
  let ml ← mlArg
  let classes ← classesArg
  let y ← arr
  let w ← weightsArg
  let nr ← nat
  let nc ← nat
  let nz ← many float (nr * nc)
  match encoderFit ml classes y with
  | .error e => pure (showErr e)
  | .ok f =>
    match encoderTransform f y with
    | .error e => pure (showErr e)
    | .ok codes =>
      match majorityVote (α := Float) (β := Float) f.classes.length (encRows y codes) w (rowsOf nc nr nz) with
      | .error e => pure (showErr e)
      | .ok picks =>
        match encoderInverse f picks with
        | .error e => pure (showErr e)
        | .ok ls => pure ("ok " ++ showLbls ls).trimAscii.toString

def parseNorm : P (Option Norm) := do
  match (← tok) with
  | "none" => pure (some .none_)
  | "true" => pure (some .true_)
  | "pred" => pure (some .pred)
  | "all" => pure (some .all)
  | _ => pure none

/-- `extconf <none|true|pred|all|other> <ml|bad> <classes> <arr column_stack((y_true, y_pred))>`
→ `ok <A> <K> entries…` -/
def cmdExtConf : P String := do
  let norm ← parseNorm
  let ml ← mlArg
  let classes ← classesArg
  let y ← arr
  match norm with
  | none => pure (showErr .normalize)
  | some _ =>
    match encoderFit ml classes y with
    | .error e => pure (showErr e)
    | .ok f =>
      match encoderTransform f y with
      | .error e => pure (showErr e)
      | .ok codes =>
        let rows := encRows y codes
        let ts := rows.map (fun r => r.getD 0 (-1))
        let nA := (y.cols.getD 1) - 1
        let predCols := (List.range nA).map (fun a => rows.map (fun r => r.getD (a+1) (-1)))
        let k := f.classes.length
        match extConfusionMatrix (α := Float) Nat.toFloat k ts predCols norm with
        | .error e => pure (showErr e)
        | .ok ms => pure (s!"ok {ms.length} {k} " ++ showFloats (ms.map List.flatten).flatten).trimAscii.toString

def handlers : List (String × P String) :=
  [ ("votes", cmdVotes), ("majority", cmdMajority), ("extconf", cmdExtConf) ]

end Ska.Drv.Agg
