import SkaModel.Core.Proto
import SkaModel.Gen.AnnotGen

/-! Driver command executing the *generated* `_n_to_assign_annotators` (`Gen/AnnotGen.lean`):
`g_ma_assign <batch_size> <rows> <cols> A… <n> s_indices… <n> pref… <fuel>` prints `ok <annot_per_sample>` or
`err non-termination`. -/

namespace Ska.Drv.AnnotGen
open Ska Ska.Proto Ska.Gen.Annot

def cmdAssign : P String := do
  let b ← nat
  let r ← nat
  let c ← nat
  let A ← many (many bool c) r
  let s ← listOf nat
  let pref ← listOf nat
  let fuel ← nat
  pure (match _n_to_assign_annotators fuel b A s pref with
    | some x => "ok " ++ showNats x
    | none => "err non-termination")

def handlers : List (String × P String) := [("g_ma_assign", cmdAssign)]

end Ska.Drv.AnnotGen
