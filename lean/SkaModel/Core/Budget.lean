/-!
# Stream budget managers (model of `skactiveml/stream/budgetmanager/*.py`)

Core Lean only (no Mathlib): every definition is executed at `Float` by the driver
(`SkaModel/Drv/Budget.lean`) and reasoned about over an ordered field in
`SkaModel/Props/C04.lean`, `C03.lean`, `C10.lean`.

Conventions
* a utility is `Option α`, `none` is NaN (`1 - NaN`, `NaN <= θ`, `NaN < θ` are all "not sampled");
* numpy `a <= b` on non-NaN doubles is `leB a b := ¬ b < a`;
* a `RandomState` is a cursor `rng : Nat` into an explicit stream of draws (`uni` for
  `random_sample`, `nrm` for `normal(1, delta)`); `get_state` / `set_state` save / restore the cursor;
  `random_sample(n)` reads `n` consecutive positions;
* every `query_by_utility` is written as in the code: a loop over the instances that works on the
  temporaries `tmp_u_t`, `tmp_theta`, … and on the *live* generator, followed by the restore of the
  generator; the function returns the queried indices **and the state of the object afterwards**, so
  that "query does not change the state" is a theorem and not a definition;
* every `update` follows the code's loop structure (two passes where the code has two passes) and
  fails with `indexError` exactly where `queried[queried_indices] = 1` raises. The state the object is
  left in after a raised exception is not modelled.
-/

namespace Ska.Budget

inductive BErr where
  | indexError
  deriving Repr, DecidableEq

/-! ## bookkeeping shared by all managers -/

/-- the indices `i, i+1, …` at which the decision bits are true (`queried_indices.append(i)`). -/
def idxOf : List Bool → Nat → List Nat
  | [], _ => []
  | b :: bs, i => if b then i :: idxOf bs (i+1) else idxOf bs (i+1)

/-- `queried = np.zeros(n); queried[queried_indices] = 1` (raises `IndexError` on an index `≥ n`). -/
def bitsOf (n : Nat) (idx : List Nat) : Except BErr (List Bool) :=
  if idx.all (fun i => decide (i < n)) then .ok ((List.range n).map (fun i => idx.contains i))
  else .error .indexError

/-- `for i, x in enumerate(xs): (d, tmp) = body(tmp, x)` collecting the decisions. -/
def simLoop {σ ι : Type} (body : σ → ι → Bool × σ) : σ → List ι → List Bool × σ
  | t, [] => ([], t)
  | t, x :: xs =>
    let r := body t x
    let rest := simLoop body r.2 xs
    (r.1 :: rest.1, rest.2)

/-- A budget manager / stream strategy seen through its two public methods. -/
structure Mgr (σ ι : Type) where
  /-- `query_by_utility(utilities)`: queried indices and the state of the object afterwards -/
  query : σ → List ι → List Nat × σ
  /-- `update(candidates, queried_indices)`; the chunk is passed for its length (BIQF: utilities) -/
  update : σ → List ι → List Nat → Except BErr σ

/-- The protocol `idx = query(chunk); update(chunk, idx)` over consecutive chunks. Returns the queried
indices as positions in the whole stream and the final state. -/
def runChunked {σ ι : Type} (M : Mgr σ ι) : σ → List (List ι) → Nat → Except BErr (List Nat × σ)
  | s, [], _ => .ok ([], s)
  | s, c :: cs, off =>
    let q := M.query s c
    match M.update q.2 c q.1 with
    | .error e => .error e
    | .ok s' =>
      match runChunked M s' cs (off + c.length) with
      | .error e => .error e
      | .ok r => .ok (q.1.map (· + off) ++ r.1, r.2)

/-- One call of a history. -/
inductive Op (ι : Type) where
  | query (xs : List ι)
  | update (xs : List ι) (idx : List Nat)

inductive Out where
  | queried (idx : List Nat)
  | updated
  | failed
  deriving Repr, DecidableEq

/-- Run a history of calls; a failing `update` leaves the state as it was. -/
def runOps {σ ι : Type} (M : Mgr σ ι) : σ → List (Op ι) → List Out × σ
  | s, [] => ([], s)
  | s, .query xs :: ops =>
    let q := M.query s xs
    let r := runOps M q.2 ops
    (.queried q.1 :: r.1, r.2)
  | s, .update xs idx :: ops =>
    match M.update s xs idx with
    | .ok s' => let r := runOps M s' ops; (.updated :: r.1, r.2)
    | .error _ => let r := runOps M s ops; (.failed :: r.1, r.2)

/-- A history in which some calls are marked as *extra* (`true`). -/
def runMarked {σ ι : Type} (M : Mgr σ ι) : σ → List (Bool × Op ι) → List (Bool × Out) × σ
  | s, [] => ([], s)
  | s, (m, .query xs) :: ops =>
    let q := M.query s xs
    let r := runMarked M q.2 ops
    ((m, .queried q.1) :: r.1, r.2)
  | s, (m, .update xs idx) :: ops =>
    match M.update s xs idx with
    | .ok s' => let r := runMarked M s' ops; ((m, .updated) :: r.1, r.2)
    | .error _ => let r := runMarked M s ops; ((m, .failed) :: r.1, r.2)

def isQueryOp {ι : Type} : Op ι → Bool
  | .query _ => true
  | .update _ _ => false

def notExtra {γ : Type} (x : Bool × γ) : Bool := !x.1

/-! ## numbers -/

section Num
variable {α : Type} [Add α] [Sub α] [Mul α] [Div α] [LT α] [DecidableLT α] [OfNat α 0] [OfNat α 1]

/-- `u_t = u_{t-1} * (w-1)/w + labeling_t` -/
def nextU (w u : α) (g : Bool) : α := u * ((w - 1) / w) + (if g then 1 else 0)

/-- the guard `tmp_u_t / w < budget_` -/
def budgetLeft (w b u : α) : Bool := decide (u / w < b)

/-- numpy `a <= b` on non-NaN numbers -/
def leB (a b : α) : Bool := !decide (b < a)

/-- `confidence = 1 - utilities` -/
def conf (x : Option α) : Option α := x.map (fun v => 1 - v)

/-- `c < θ` with `c` possibly NaN -/
def ltO (c : Option α) (t : α) : Bool :=
  match c with
  | none => false
  | some c => decide (c < t)

/-- `c <= θ` with `c` possibly NaN -/
def leO (c : Option α) (t : α) : Bool :=
  match c with
  | none => false
  | some c => leB c t

/-- `theta *= 1 - s` if queried else `theta *= 1 + s` -/
def scale (s th : α) (q : Bool) : α := th * (if q then 1 - s else 1 + s)

/-- `u_t_` after `EstimatedBudgetZliobaite.update` (the loop over `queried`). -/
def uPass (w : α) : α → List Bool → α
  | u, [] => u
  | u, q :: qs => uPass w (nextU w u q) qs

/-! ## the Žliobaitė family (`_estimated_budget_zliobaite.py`) -/

structure ZParams (α : Type) where
  w : α
  b : α
  /-- `s` (variable, random variable, split) -/
  s : α
  /-- `v` (split) -/
  v : α
  /-- `len(classes)` (fixed) -/
  nc : α

/-- `u_t_`, `theta_`, and the cursor of `random_state_`. -/
structure ZState (α : Type) where
  u : α
  theta : α
  rng : Nat
  deriving DecidableEq

/-- `query_by_utility` of the whole family: the loop runs on temporaries initialised from the
attributes and on the live generator; afterwards the generator is restored. -/
def zQuery (body : ZState α → Option α → Bool × ZState α) (s : ZState α) (us : List (Option α)) :
    List Nat × ZState α :=
  let saved := s.rng                                   -- prior = random_state_.get_state()
  let r := simLoop body s us                           -- tmp_u_t, tmp_theta := u_t_, theta_; live generator
  let live : ZState α := { s with rng := r.2.rng }     -- the object after the loop: only the generator moved
  (idxOf r.1 0, { live with rng := saved })            -- random_state_.set_state(prior)

/-- `theta = 1/len(classes) + budget * (1 - 1/len(classes))` -/
def fixedTheta (p : ZParams α) : α := 1 / p.nc + p.b * (1 - 1 / p.nc)

/-- FixedUncertaintyBudgetManager.query_by_utility, loop body -/
def fixedBody (p : ZParams α) (t : ZState α) (x : Option α) : Bool × ZState α :=
  let d := budgetLeft p.w p.b t.u && leO (conf x) (fixedTheta p)
  (d, { t with u := nextU p.w t.u d })

def fixedQuery (p : ZParams α) := zQuery (fixedBody p)

def fixedUpdate (p : ZParams α) (s : ZState α) (n : Nat) (idx : List Nat) : Except BErr (ZState α) :=
  match bitsOf n idx with
  | .error e => .error e
  | .ok bits => .ok { s with u := uPass p.w s.u bits }

/-- VariableUncertaintyBudgetManager.query_by_utility, loop body -/
def varBody (p : ZParams α) (t : ZState α) (x : Option α) : Bool × ZState α :=
  if budgetLeft p.w p.b t.u then
    let smp := ltO (conf x) t.theta
    (smp, { t with u := nextU p.w t.u smp, theta := scale p.s t.theta smp })
  else (false, { t with u := nextU p.w t.u false })

def varQuery (p : ZParams α) := zQuery (varBody p)

/-- the `theta_` loop of `VariableUncertaintyBudgetManager.update` (and of the random variable one):
it advances the local copy `tmp_u_t` (current code, after commit eebfd1c6). -/
def thetaPass (p : ZParams α) : α → α → List Bool → α
  | _, th, [] => th
  | tu, th, q :: qs =>
    thetaPass p (nextU p.w tu q) (if budgetLeft p.w p.b tu then scale p.s th q else th) qs

def varUpdate (p : ZParams α) (s : ZState α) (n : Nat) (idx : List Nat) : Except BErr (ZState α) :=
  match bitsOf n idx with
  | .error e => .error e
  | .ok bits =>
    let th := thetaPass p s.u s.theta bits          -- loop 1: theta_ against tmp_u_t
    .ok { s with theta := th, u := uPass p.w s.u bits }   -- loop 2: super().update

/-- RandomVariableUncertaintyBudgetManager.query_by_utility, loop body; `nrm` = `normal(1, delta)` draws -/
def randVarBody (p : ZParams α) (nrm : Nat → α) (t : ZState α) (x : Option α) : Bool × ZState α :=
  if budgetLeft p.w p.b t.u then
    let eta := nrm t.rng
    let smp := ltO (conf x) (t.theta * eta)
    (smp, { u := nextU p.w t.u smp, theta := scale p.s t.theta smp, rng := t.rng + 1 })
  else (false, { t with u := nextU p.w t.u false })

def randVarQuery (p : ZParams α) (nrm : Nat → α) := zQuery (randVarBody p nrm)

/-- `random_state_.random_sample(len(candidates))`, then the two loops. -/
def randVarUpdate (p : ZParams α) (s : ZState α) (n : Nat) (idx : List Nat) : Except BErr (ZState α) :=
  match bitsOf n idx with
  | .error e => .error e
  | .ok bits =>
    let th := thetaPass p s.u s.theta bits
    .ok { u := uPass p.w s.u bits, theta := th, rng := s.rng + n }

/-- SplitBudgetManager.query_by_utility, loop body; `uni` = `random_sample()` draws -/
def splitBody (p : ZParams α) (uni : Nat → α) (t : ZState α) (x : Option α) : Bool × ZState α :=
  if budgetLeft p.w p.b t.u then
    if uni t.rng < p.v then
      let smp := leB (uni (t.rng + 1)) p.b
      (smp, { t with u := nextU p.w t.u smp, rng := t.rng + 2 })
    else
      let smp := ltO (conf x) t.theta
      (smp, { u := nextU p.w t.u smp, theta := scale p.s t.theta smp, rng := t.rng + 1 })
  else (false, { t with u := nextU p.w t.u false })

def splitQuery (p : ZParams α) (uni : Nat → α) := zQuery (splitBody p uni)

/-- SplitBudgetManager.update, loop body (works on the attributes and the live generator). -/
def splitUBody (p : ZParams α) (uni : Nat → α) (s : ZState α) (q : Bool) : ZState α :=
  let s1 : ZState α :=
    if budgetLeft p.w p.b s.u then
      if uni s.rng < p.v then { s with rng := s.rng + 2 }
      else { s with theta := scale p.s s.theta q, rng := s.rng + 1 }
    else s
  { s1 with u := nextU p.w s1.u q }

def splitUpdate (p : ZParams α) (uni : Nat → α) (s : ZState α) (n : Nat) (idx : List Nat) :
    Except BErr (ZState α) :=
  match bitsOf n idx with
  | .error e => .error e
  | .ok bits => .ok (bits.foldl (splitUBody p uni) s)

/-- RandomBudgetManager.query_by_utility: `samples = random_sample(n) <= budget` is drawn up front,
instance `i` reads position `cursor + i`; NaN utilities are never queried and do not count. -/
def randomBody (p : ZParams α) (uni : Nat → α) (t : ZState α) (x : Option α) : Bool × ZState α :=
  let d := budgetLeft p.w p.b t.u && leB (uni t.rng) p.b
  let g := d && x.isSome
  (g, { t with u := nextU p.w t.u g, rng := t.rng + 1 })

def randomQuery (p : ZParams α) (uni : Nat → α) := zQuery (randomBody p uni)

def randomUpdate (p : ZParams α) (s : ZState α) (n : Nat) (idx : List Nat) : Except BErr (ZState α) :=
  match bitsOf n idx with
  | .error e => .error e
  | .ok bits => .ok { s with rng := s.rng + n, u := uPass p.w s.u bits }

def fixedMgr (p : ZParams α) : Mgr (ZState α) (Option α) :=
  { query := fixedQuery p, update := fun s c idx => fixedUpdate p s c.length idx }
def varMgr (p : ZParams α) : Mgr (ZState α) (Option α) :=
  { query := varQuery p, update := fun s c idx => varUpdate p s c.length idx }
def randVarMgr (p : ZParams α) (nrm : Nat → α) : Mgr (ZState α) (Option α) :=
  { query := randVarQuery p nrm, update := fun s c idx => randVarUpdate p s c.length idx }
def splitMgr (p : ZParams α) (uni : Nat → α) : Mgr (ZState α) (Option α) :=
  { query := splitQuery p uni, update := fun s c idx => splitUpdate p uni s c.length idx }
def randomMgr (p : ZParams α) (uni : Nat → α) : Mgr (ZState α) (Option α) :=
  { query := randomQuery p uni, update := fun s c idx => randomUpdate p s c.length idx }

/-! ## DensityBasedSplitBudgetManager (`_threshold_budget.py`) -/

structure DParams (α : Type) where
  b : α
  s : α

/-- `u_`, `t_` (exact counters), `theta_`, cursor of `random_state_`. -/
structure DState (α : Type) where
  u : Nat
  t : Nat
  theta : α
  rng : Nat
  deriving DecidableEq

section Cast
variable [NatCast α]

/-- the guard `budget_ > tmp_u / tmp_t` -/
def dbLeft (b : α) (u t : Nat) : Bool := decide ((u : α) / (t : α) < b)

def dbBody (p : DParams α) (nrm : Nat → α) (st : DState α) (x : Option α) : Bool × DState α :=
  let t1 := st.t + 1
  if dbLeft p.b st.u t1 then
    let smp := ltO (conf x) (st.theta * nrm st.rng)
    (smp, { u := st.u + (if smp then 1 else 0), t := t1, theta := scale p.s st.theta smp, rng := st.rng + 1 })
  else (false, { st with t := t1 })

def dbQuery (p : DParams α) (nrm : Nat → α) (s : DState α) (us : List (Option α)) : List Nat × DState α :=
  let saved := s.rng
  let r := simLoop (dbBody p nrm) s us
  let live : DState α := { s with rng := r.2.rng }
  (idxOf r.1 0, { live with rng := saved })

def dbUBody (p : DParams α) (st : DState α) (q : Bool) : DState α :=
  let t1 := st.t + 1
  { st with t := t1,
            theta := (if dbLeft p.b st.u t1 then scale p.s st.theta q else st.theta),
            u := st.u + (if q then 1 else 0) }

def dbUpdate (p : DParams α) (s : DState α) (n : Nat) (idx : List Nat) : Except BErr (DState α) :=
  match bitsOf n idx with
  | .error e => .error e
  | .ok bits => .ok (bits.foldl (dbUBody p) { s with rng := s.rng + n })

def dbMgr (p : DParams α) (nrm : Nat → α) : Mgr (DState α) (Option α) :=
  { query := dbQuery p nrm, update := fun s c idx => dbUpdate p s c.length idx }

/-! ## BalancedIncrementalQuantileFilter -/

structure QParams (α : Type) where
  /-- `w`: `maxlen` of the history deque -/
  w : Nat
  wtol : α
  b : α

/-- `observed_samples_`, `queried_samples_`, `history_sorted_` -/
structure QState (α : Type) where
  obs : Nat
  qd : Nat
  hist : List (Option α)
  deriving DecidableEq

/-- `deque(maxlen=w).append(x)` -/
def pushW (w : Nat) (h : List (Option α)) (x : Option α) : List (Option α) :=
  let h' := h ++ [x]
  h'.drop (h'.length - w)

/-- the values of a window, `none` if it contains a NaN -/
def allSome : List (Option α) → Option (List α)
  | [] => some []
  | none :: _ => none
  | some v :: xs => (allSome xs).map (fun l => v :: l)

def minL : α → List α → α
  | m, [] => m
  | m, x :: xs => minL (if x < m then x else m) xs

def maxL : α → List α → α
  | m, [] => m
  | m, x :: xs => maxL (if m < x then x else m) xs

/-- `np.max(h) - np.min(h)` (NaN if the window holds a NaN; 0 on an empty window, which never occurs). -/
def rangeO (h : List (Option α)) : Option α :=
  match allSome h with
  | some (v :: vs) => some (maxL v vs - minL v vs)
  | _ => none

/-- loop body of `query_by_utility`; `qf` is `np.quantile(window, 1 - budget)` (oracle, NaN = `none`). -/
def biqfBody (p : QParams α) (qf : List (Option α) → Option α) (st : QState α) (x : Option α) :
    Bool × QState α :=
  let obs := st.obs + 1
  let h := pushW p.w st.hist x
  let smp :=
    match x, qf h, rangeO h with
    | some u, some th, some rg =>
      let acq := p.b * (obs : α) - (st.qd : α)
      leB (th - rg * (acq / p.wtol)) u
    | _, _, _ => false
  (smp, { obs := obs, qd := st.qd + (if smp then 1 else 0), hist := h })

/-- all work is done on `tmp_*` copies; the object is not touched. -/
def biqfQuery (p : QParams α) (qf : List (Option α) → Option α) (s : QState α) (us : List (Option α)) :
    List Nat × QState α :=
  let r := simLoop (biqfBody p qf) s us
  (idxOf r.1 0, s)

def countTrue (bs : List Bool) : Nat := (bs.filter id).length

/-- `update(candidates, queried_indices, utilities)`: bulk counters, `history_sorted_.extend(utilities)`. -/
def biqfUpdate (p : QParams α) (s : QState α) (n : Nat) (idx : List Nat) (us : List (Option α)) :
    Except BErr (QState α) :=
  match bitsOf n idx with
  | .error e => .error e
  | .ok bits => .ok { obs := s.obs + bits.length, qd := s.qd + countTrue bits, hist := us.foldl (pushW p.w) s.hist }

def biqfMgr (p : QParams α) (qf : List (Option α) → Option α) : Mgr (QState α) (Option α) :=
  { query := biqfQuery p qf, update := fun s c idx => biqfUpdate p s c.length idx c }

end Cast
end Num

end Ska.Budget
