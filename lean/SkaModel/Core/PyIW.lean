import SkaModel.Core.IndexWrapper

/-! Runtime of the model translated from `IndexClassifierWrapper` (`Gen/WrapperGen.lean`, written by
`harness/translate/pywrapper.py`): numpy's two index forms used there. -/

namespace Ska.PyIW
open Ska.IW

/-- an index expression: a boolean mask (`np.array([...])` of truth values) or `np.arange(k)` -/
inductive CurIdx where
  | mask (m : List Bool)
  | arange (k : Nat)
  deriving Repr

/-- `a[cur_idx]`: a boolean mask must have the length of the axis (numpy: "boolean index did not match"), `np.arange(k)`
needs `k ≤ len(a)` (otherwise "index k-1 is out of bounds"); both are `IndexError`s. -/
def npIndex {α : Type} (a : List α) : CurIdx → Except Err (List α)
  | .mask m => if a.length = m.length then .ok (maskSel a m) else .error .index
  | .arange k => if k ≤ a.length then .ok (a.take k) else .error .index

/-- the wrapper object as Python sees it: every attribute is absent until it is assigned (`sample_weight_` may be assigned `None`) -/
structure WObj (C L W : Type) where
  clf_ : Option C := none
  idx_ : Option (List Int) := none
  y_ : Option (List L) := none
  sample_weight_ : Option (Option (List W)) := none
  base_clf_ : Option C := none
  base_idx_ : Option (List Int) := none
  base_y_ : Option (List L) := none
  base_sample_weight_ : Option (Option (List W)) := none

/-- reading an attribute: `AttributeError` while it has not been assigned -/
def attr {α : Type} : Option α → Except Err α
  | some a => .ok a
  | none => .error .attr

/-- `self.X[idx]` for indices that passed `check_indices` (all `< n`): numpy wraps negative indices and raises `IndexError`
below `-n` -/
def xRows (n : Nat) (idx : List Int) : Except Err (List Int) :=
  if idx.all (fun i => decide (-(n : Int) ≤ i)) then .ok idx else .error .index

end Ska.PyIW
