/-!
# SlidingWindowClassifier buffers (model of `skactiveml/classifier/_wrapper.py: SlidingWindowClassifier`)

Core Lean only. A sample is an abstract value `S` (the pair `(x, y)`: `X_train_` and `y_train_` are
always extended together); `labeled : S → Bool` is `is_labeled(y)`. The weight buffer is
`sample_weight_train_`: `some ws` = a deque, `none` = the attribute was set to `None`.
`deque(maxlen=w).extend(xs)` keeps the last `w` elements of the concatenation (`lastN`).
The wrapped estimator is `fitFn` (what `deepcopy(self.estimator).fit(X, y, sample_weight)` produces).
Every call returns the state the object is left in and whether it raised (a raising call leaves the
object as it was: `Ska.C13w.call_error_atomic`).
-/

namespace Ska.Window

inductive Err where
  | value     -- ValueError / TypeError from `_validate_data` (lengths, shapes, window_size) and from the
              -- weight-regime check in `_add_samples` (weights given after a call without weights)
  | attr      -- AttributeError: `None.extend(...)` (old code only, see `Ska.C13w.Regressions`)
  deriving Repr, DecidableEq

/-- last `w` elements (`w = none`: unbounded window) -/
def lastN {α : Type} : Option Nat → List α → List α
  | none, l => l
  | some w, l => l.drop (l.length - w)

structure Cfg where
  window : Option Nat        -- `window_size`
  onlyLabeled : Bool         -- `only_labeled`
  deriving Repr, DecidableEq

structure St (C S W : Type) where
  buf : List S                     -- `zip(X_train_, y_train_)`
  sw : Option (List W)             -- `sample_weight_train_`
  clf : Option C                   -- `estimator_`
  deriving Repr, DecidableEq

section Ops
variable {C S W : Type}

def St.init : St C S W := ⟨[], some [], none⟩

/-- the `only_labeled` filter on a batch (weights are filtered with the samples) -/
def filterBatch (cfg : Cfg) (labeled : S → Bool) (xs : List S) (ws : Option (List W)) :
    List S × Option (List W) :=
  if cfg.onlyLabeled then
    (xs.filter labeled, ws.map (fun w => ((List.zip xs w).filter (fun t => labeled t.1)).map Prod.snd))
  else (xs, ws)

/-- `_validate_data`: `window_size` must be a positive int, `sample_weight` must have the shape of `y`. -/
def validate (cfg : Cfg) (xs : List S) (ws : Option (List W)) : Option Err :=
  if cfg.window = some 0 then some .value
  else match ws with
    | some w => if w.length = xs.length then none else some .value
    | none => none

/-- `fit` (`isFit = true`) / `partial_fit` (`isFit = false`): `_validate_data`, `_add_samples`, `_fit`. -/
def call (cfg : Cfg) (labeled : S → Bool) (fitFn : List S → Option (List W) → C) (isFit : Bool)
    (s : St C S W) (xs : List S) (ws : Option (List W)) : St C S W × Option Err :=
  match validate cfg xs ws with
  | some e => (s, some e)
  | none =>
    let b := filterBatch cfg labeled xs ws
    -- reset the window if fit is called
    let buf0 := if isFit then [] else s.buf
    let sw0 := if isFit then some [] else s.sw
    let buf' := lastN cfg.window (buf0 ++ b.1)
    match b.2 with
    | some w =>
      match sw0 with
      | some d =>
        let sw' := some (lastN cfg.window (d ++ w))
        (⟨buf', sw', some (fitFn buf' sw')⟩, none)
      | none => (s, some .value)      -- weights after a call without weights: rejected before the window is extended
    | none => (⟨buf', none, some (fitFn buf' none)⟩, none)

/-- one call: `(isFit, samples, weights)` -/
abbrev Op (S W : Type) := Bool × List S × Option (List W)

def run (cfg : Cfg) (labeled : S → Bool) (fitFn : List S → Option (List W) → C) (s : St C S W) :
    List (Op S W) → St C S W
  | [] => s
  | (f, xs, ws) :: ops => run cfg labeled fitFn (call cfg labeled fitFn f s xs ws).1 ops

end Ops

end Ska.Window
