import SkaModel.Core.Selection

/-!
# Pool query skeleton (model of `SingleAnnotatorPoolQueryStrategy` + the common `query` tail)

Core Lean only.  The numeric utility function of a strategy is *not* modelled: its result on the
candidates (`utilCand`) is an argument.  What is modelled is everything that decides which indices
come back and what the utilities array looks like:

* `_validate_data`: clipping of `batch_size` to the number of candidates;
* `_transform_candidates`: the `mapping` from candidate positions to rows of `X`
  (`none` for feature-row candidates);
* the common tail ("Skeleton A") `utilities = np.full(len(X), nan); utilities[mapping] = utilCand;
  return simple_batch(utilities, random_state_, batch_size, return_utilities, method)`;
* the specification predicates `ValidBatch` / `ValidUtils` (C01 / C02) together with Boolean
  deciders that the driver runs on *implementation outputs* of every strategy.
-/

namespace Ska

section Scatter
variable {α : Type}

/-- `u = np.full(n, nan); u[mapping] = utilCand` (later writes win, as in numpy). -/
def scatter (n : Nat) : List Nat → List (Option α) → List (Option α)
  | [], _ => List.replicate n none
  | _ :: _, [] => List.replicate n none
  | i :: is, v :: vs => (scatter n is vs).set i v

/-- The utilities handed to `simple_batch`: scattered through `mapping` when it exists, the
candidate utilities themselves for feature-row candidates. -/
def fullUtilities (n : Nat) (mapping : Option (List Nat)) (utilCand : List (Option α)) : List (Option α) :=
  match mapping with
  | some m => scatter n m utilCand
  | none => utilCand

/-- number of candidates: `len(mapping)` or the number of candidate rows -/
def nCandOf (mapping : Option (List Nat)) (utilCand : List (Option α)) : Nat :=
  match mapping with
  | some mp => mp.length
  | none => utilCand.length

end Scatter

section SkeletonA
variable {α : Type} [LT α] [DecidableLT α] [OfNat α 0] [Add α]
variable {β : Type} [LT β] [DecidableLT β] [OfNat β 0]

/-- Skeleton A: `_validate_data` clipping, scatter, `simple_batch`.
`nCand` is the number of candidates (`len(mapping)` or the number of candidate rows). -/
def poolQueryA (isInf : α → Bool) (n : Nat) (mapping : Option (List Nat)) (utilCand : List (Option α))
    (b : Nat) (m : Method) (noises : List (List β)) (choice : List Nat) :
    Except SelErr (List (Nat × List (Option α))) :=
  if b < 1 then .error .batchSize
  else
    simpleBatch isInf (fullUtilities n mapping utilCand) (min b (nCandOf mapping utilCand)) m noises choice

end SkeletonA

/-! ## candidates = None: the unlabeled samples -/

/-- `unlabeled_indices(y)` on a labeling given as a mask (`true` = label missing), starting at row `i`. -/
def unlabeledFrom : Nat → List Bool → List Nat
  | _, [] => []
  | i, true :: ys => i :: unlabeledFrom (i+1) ys
  | i, false :: ys => unlabeledFrom (i+1) ys

def unlabeledIdx (y : List Bool) : List Nat := unlabeledFrom 0 y

/-! ## `_validate_data` / `_transform_candidates`: how candidates are addressed -/

/-- insertion into a sorted list without duplicates (`np.unique` = sort + dedupe) -/
def insertUnique (x : Nat) : List Nat → List Nat
  | [] => [x]
  | y :: ys => if x < y then x :: y :: ys else if x = y then y :: ys else y :: insertUnique x ys

/-- `np.unique(indices)` -/
def uniqueSorted (l : List Nat) : List Nat := l.foldr insertUnique []

inductive CandSpec where
  | none                      -- candidates=None
  | idx (l : List Nat)        -- index array
  | rows (k : Nat)            -- k feature rows
  deriving Repr

/-- the `mapping` computed by `_validate_data` + `_transform_candidates` -/
def transformCandidates (c : CandSpec) (y : List Bool) : Option (List Nat) :=
  match c with
  | .none => some (unlabeledIdx y)
  | .idx l => some (uniqueSorted l)
  | .rows _ => Option.none

/-! ## Specification deciders (run on implementation outputs) -/

section Spec
variable {α : Type} [LT α] [DecidableLT α] [OfNat α 0]

/-- C01 as a Boolean: exactly `min b |cand|` pairwise distinct indices, each a candidate. -/
def validBatchB (cand : List Nat) (b : Nat) (q : List Nat) : Bool :=
  decide (q.length = min b cand.length) && nodupB q && q.all (fun i => cand.contains i)

/-- NaN pattern of row `k`: NaN exactly at non-candidates and at the picks `0..k-1`. -/
def nanPatternRowB (n : Nat) (cand : List Nat) (earlier : List Nat) (row : List (Option α)) : Bool :=
  decide (row.length = n) &&
  (List.range n).all (fun j =>
    (row.getD j none).isNone == (!(cand.contains j) || earlier.contains j))

/-- the pick attains the maximum of its row (maximising strategies). -/
def argmaxRowB (row : List (Option α)) (pick : Nat) : Bool :=
  match nanmax row, row.getD pick none with
  | some m, some v => eqv v m
  | _, _ => false

/-- the pick has strictly positive mass in its row (sampling strategies). -/
def posMassRowB (row : List (Option α)) (pick : Nat) : Bool :=
  match row.getD pick none with
  | some v => decide ((0 : α) < v)
  | none => false

/-- the pick is a number in its row (weakest reading, used where neither of the above is claimed). -/
def numberRowB (row : List (Option α)) (pick : Nat) : Bool := (row.getD pick none).isSome

inductive SelKind where
  | max | mass | number
  deriving Repr, DecidableEq

def pickOkB (k : SelKind) (row : List (Option α)) (pick : Nat) : Bool :=
  match k with
  | .max => argmaxRowB row pick
  | .mass => posMassRowB row pick
  | .number => numberRowB row pick

/-- rows against picks, carrying the list of earlier picks -/
def validRowsB (kind : SelKind) (n : Nat) (cand : List Nat) :
    List Nat → List Nat → List (List (Option α)) → Bool
  | _, [], [] => true
  | earlier, p :: ps, row :: rows =>
    nanPatternRowB n cand earlier row && pickOkB kind row p &&
      validRowsB kind n cand (earlier ++ [p]) ps rows
  | _, _, _ => false

/-- C02 as a Boolean. -/
def validUtilsB (kind : SelKind) (n : Nat) (cand : List Nat) (q : List Nat)
    (U : List (List (Option α))) : Bool :=
  validRowsB kind n cand [] q U

end Spec

end Ska
