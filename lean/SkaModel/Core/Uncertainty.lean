import SkaModel.Core.Pool

/-!
# Uncertainty scores (model of `uncertainty_scores` and of the tail of `UncertaintySampling.query` in
`skactiveml/pool/_uncertainty_sampling.py`, methods `least_confident` and `margin_sampling`, no cost matrix)

`probas` is the matrix `clf.predict_proba(X_cand)` (an explicit argument: one row per candidate).  Core Lean only.
-/

namespace Ska.Uncertainty
open Ska

variable {α : Type} [LT α] [DecidableLT α] [Sub α] [Mul α] [OfNat α 1]

/-- `np.max(row)` (first maximum of a non-empty row) -/
def maxRow : α → List α → α
  | m, [] => m
  | m, x :: xs => maxRow (if m < x then x else m) xs

/-- the two largest entries of a row `(largest, second largest)`; `-np.partition(-probas, 1)[:, :2]` -/
def top2 : α → α → List α → α × α
  | a, b, [] => (a, b)
  | a, b, x :: xs => if a < x then top2 x a xs else if b < x then top2 a x xs else top2 a b xs

def absDiff (a b : α) : α := if a < b then b - a else a - b

/-- `1 - np.max(probas, axis=1)` for one row -/
def leastConfident : List α → α
  | [] => 1
  | p :: ps => 1 - maxRow p ps

/-- `1 - |p_(1) - p_(2)|` for one row (rows have at least two classes; a one-class row scores `1 - p`) -/
def margin : List α → α
  | [] => 1
  | [p] => 1 - p
  | p :: q :: ps =>
    let t := if p < q then top2 q p ps else top2 p q ps
    1 - absDiff t.1 t.2

inductive UMethod where
  | leastConfident | margin
  deriving Repr, DecidableEq

def score : UMethod → List α → α
  | .leastConfident => leastConfident
  | .margin => margin

/-- `utilities_cand = uncertainty_scores(probas, method)`: one score per candidate row -/
def scores (m : UMethod) (probas : List (List α)) : List α := probas.map (score m)

/-- `utilities *= utility_weight` on the full-length vector (NaN stays NaN) -/
def weight (u : List (Option α)) (w : List α) : List (Option α) :=
  List.zipWith (fun x wi => x.map (fun v => v * wi)) u w

/-- the vector handed to `simple_batch` when candidates are addressed through `mapping` (None / index candidates):
`utilities = full(len(X), nan); utilities[mapping] = utilities_cand; utilities *= utility_weight` -/
def usUtilities (m : UMethod) (n : Nat) (mapping : List Nat) (probas : List (List α)) (w : List α) : List (Option α) :=
  weight (scatter n mapping ((scores m probas).map some)) w

end Ska.Uncertainty
