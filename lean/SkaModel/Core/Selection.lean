/-!
# Selection primitives (model of `skactiveml/utils/_selection.py`)

Core Lean only (no Mathlib): these definitions are executed at `Float` by the driver and reasoned
about over an arbitrary linear order in `SkaModel/Props/C18.lean`.

Conventions
* a utility is `Option α`; `none` is NaN, `±inf` are ordinary elements of `α`;
* numpy's `==` on non-NaN doubles is `eqv a b := ¬ a < b ∧ ¬ b < a` (so `-0.0 == 0.0`);
* a random draw `random_state.random(a.shape)` is an explicit argument `noise : List β`.
-/

namespace Ska

section Basic
variable {α : Type} [LT α] [DecidableLT α]

/-- numpy `==` on two non-NaN numbers. -/
def eqv (a b : α) : Bool := !(decide (a < b)) && !(decide (b < a))

/-- `np.nanmax` over a flat array; `none` when every entry is NaN (numpy: NaN + RuntimeWarning). -/
def nanmax : List (Option α) → Option α
  | [] => none
  | none :: xs => nanmax xs
  | some v :: xs =>
    match nanmax xs with
    | none => some v
    | some m => if v < m then some m else some v

/-- `np.nanmin` over a flat array. -/
def nanmin : List (Option α) → Option α
  | [] => none
  | none :: xs => nanmin xs
  | some v :: xs =>
    match nanmin xs with
    | none => some v
    | some m => if m < v then some m else some v

/-- `a == np.nanmax(a)` entrywise (`False` at NaN and when the maximum itself is NaN). -/
def isOpt (m : Option α) (x : Option α) : Bool :=
  match x, m with
  | some v, some m => eqv v m
  | _, _ => false

/-- number of non-NaN entries: `np.sum(~np.isnan(u))`. -/
def countSome (u : List (Option α)) : Nat := (u.filter Option.isSome).length

end Basic

section Argmax
variable {β : Type} [LT β] [DecidableLT β]

/-- numpy `argmax` scan: first index of a maximal element. -/
def argmaxFrom : List β → Nat → Nat → β → Nat
  | [], _, best, _ => best
  | x :: xs, i, best, bv =>
    if bv < x then argmaxFrom xs (i+1) i x else argmaxFrom xs (i+1) best bv

/-- numpy `argmax` (0 on the empty list; numpy raises there, callers never pass it). -/
def argmax : List β → Nat
  | [] => 0
  | x :: xs => argmaxFrom xs 1 0 x

end Argmax

section Rand
variable {α : Type} [LT α] [DecidableLT α]
variable {β : Type} [LT β] [DecidableLT β] [OfNat β 0]

/-- `random * (a == opt)`: the noise where the mask is true and `0` elsewhere.
The result has the length of `a`; missing noise entries count as `0`. -/
def masked (m : Option α) : List (Option α) → List β → List β
  | [], _ => []
  | _ :: xs, [] => (0 : β) :: masked m xs []
  | x :: xs, n :: ns => (if isOpt m x then n else 0) :: masked m xs ns

/-- `rand_argmax(a, rs)` on a flat array, with `noise = rs.random(a.shape)`. -/
def randArgmax (a : List (Option α)) (noise : List β) : Nat :=
  argmax (masked (nanmax a) a noise)

/-- `rand_argmin(a, rs)` on a flat array. -/
def randArgmin (a : List (Option α)) (noise : List β) : Nat :=
  argmax (masked (nanmin a) a noise)

/-- rows of a row-major 2-d array with `cols` columns. -/
def chunk {γ : Type} (cols : Nat) : Nat → List γ → List (List γ)
  | 0, _ => []
  | r+1, l => l.take cols :: chunk cols r (l.drop cols)

/-- `rand_argmax(a, rs, axis=1)` for a 2-d array given as rows. -/
def randArgmaxRows (rows : List (List (Option α))) (noise : List (List β)) : List Nat :=
  List.zipWith randArgmax rows noise

def randArgminRows (rows : List (List (Option α))) (noise : List (List β)) : List Nat :=
  List.zipWith randArgmin rows noise

/-- `np.unravel_index(i, (rows, cols))`. -/
def unravel2 (cols i : Nat) : Nat × Nat := (i / cols, i % cols)

/-- The `method="max"` loop of `simple_batch` on a flat array: at every step pick by `randArgmax`
with that step's noise, record the current utilities as the step's row, and set the picked entry to
NaN.  Returns `(pick, row)` per step. -/
def simpleBatchMaxLoop : Nat → List (Option α) → List (List β) → List (Nat × List (Option α))
  | 0, _, _ => []
  | _+1, _, [] => []
  | b+1, u, n :: ns =>
    let i := randArgmax u n
    (i, u) :: simpleBatchMaxLoop b (u.set i none) ns

/-- Rows of the proportional branch: row `i` is `u` with the picks `0..i-1` set to NaN. -/
def propRows (u : List (Option α)) : List Nat → List (Nat × List (Option α))
  | [] => []
  | c :: cs => (c, u) :: propRows (u.set c none) cs

end Rand

section Batch
variable {α : Type} [LT α] [DecidableLT α] [OfNat α 0] [Add α]
variable {β : Type} [LT β] [DecidableLT β] [OfNat β 0]

inductive SelErr where
  | batchSize      -- batch_size < 1
  | method         -- unknown method
  | infinite       -- ±inf in utilities (`ensure_all_finite="allow-nan"`)
  | mass           -- proportional: numpy `choice` must raise (zero total, negative probability, too few positive entries)
  | oracle         -- the supplied `choice` result violates numpy's contract (a broken tie, not an input error)
  deriving Repr, DecidableEq

inductive Method where
  | max | proportional
  deriving Repr, DecidableEq

/-- `np.nansum`. -/
def nansum : List (Option α) → α
  | [] => 0
  | none :: xs => nansum xs
  | some v :: xs => v + nansum xs

/-- `p = u / nansum u; p[isnan p] = 0`: sign of `p_i` given the total `s`.
`p_i > 0` iff `u_i` and `s` are non-zero numbers of the same sign. -/
def posW (s : α) (x : Option α) : Bool :=
  match x with
  | some v => (decide ((0 : α) < s) && decide ((0 : α) < v)) || (decide (s < (0 : α)) && decide (v < (0 : α)))
  | none => false

/-- `p_i < 0` iff `u_i` and `s` are non-zero numbers of opposite sign. -/
def negW (s : α) (x : Option α) : Bool :=
  match x with
  | some v => (decide ((0 : α) < s) && decide (v < (0 : α))) || (decide (s < (0 : α)) && decide ((0 : α) < v))
  | none => false

def nodupB : List Nat → Bool
  | [] => true
  | x :: xs => !(xs.contains x) && nodupB xs

/-- does the validation `ensure_all_finite="allow-nan"` reject the array? -/
def hasInf (isInf : α → Bool) (u : List (Option α)) : Bool :=
  u.any (fun x => match x with | some v => isInf v | none => false)

/-- `simple_batch(utilities, rs, batch_size, method)` on a 1-d array.
`isInf` tells which numbers the validation rejects (the driver passes `Float.isInf`; the theorems
take it as an arbitrary predicate).  `noises` are the successive `rs.random(n)` draws (max mode),
`choice` is the result of `rs.choice(n, size=b', p=p, replace=False)` (proportional mode). -/
def simpleBatch (isInf : α → Bool) (u : List (Option α)) (b : Nat) (m : Method)
    (noises : List (List β)) (choice : List Nat) :
    Except SelErr (List (Nat × List (Option α))) :=
  if hasInf isInf u then .error .infinite
  else if b < 1 then .error .batchSize
  else
    let b' := min b (countSome u)
    match m with
    | .max => .ok (simpleBatchMaxLoop b' u noises)
    | .proportional =>
      let s := nansum u
      -- numpy `choice` raises: total mass zero (p all NaN→0 or ±inf), a negative probability,
      -- or fewer positive entries than the requested size
      if !(decide ((0 : α) < s)) && !(decide (s < (0 : α))) then .error .mass
      else if u.any (negW s) then .error .mass
      else if (u.filter (posW s)).length < b' then .error .mass
      else if choice.length = b' && nodupB choice && choice.all (fun c => posW s (u.getD c none)) then
        .ok (propRows u choice)
      else .error .oracle

end Batch

end Ska
