import SkaModel.Core.Budget

/-!
# Stream strategies (model of `skactiveml/stream/_stream_baselines.py` and of the glue between the
other stream strategies and their budget manager)

Core Lean only. Same conventions as `SkaModel/Core/Budget.lean`.
-/

namespace Ska.Budget

section Num
variable {α : Type} [Add α] [Sub α] [Mul α] [Div α] [LT α] [DecidableLT α] [OfNat α 0] [OfNat α 1]
variable [NatCast α]

/-- `observed_samples_`, `queried_samples_`, cursor of `random_state_` -/
structure CState where
  obs : Nat
  qd : Nat
  rng : Nat
  deriving Repr, DecidableEq

/-- `random_state_.random_sample(n)` with the cursor at `c` -/
def draws (uni : Nat → α) : Nat → Nat → List α
  | _, 0 => []
  | c, n+1 => uni c :: draws uni (c+1) n

/-! ## StreamRandomSampling -/

/-- loop body of `StreamRandomSampling.query` on the temporaries `tmp_observed_samples`,
`tmp_queried_samples` -/
def srsBody (allow : Bool) (b : α) (t : CState) (util : α) : Bool × CState :=
  let obs := t.obs + 1
  let avail := (obs : α) * b - (t.qd : α)
  let q := (allow || decide (1 < avail)) && leB (1 - b) util
  (q, { t with obs := obs, qd := t.qd + (if q then 1 else 0) })

/-- `query(candidates, return_utilities=True)` for `n` candidates: indices, utilities, object state. -/
def srsQuery (allow : Bool) (b : α) (uni : Nat → α) (s : CState) (n : Nat) : (List Nat × List α) × CState :=
  let saved := s.rng                                   -- prior = get_state()
  let utils := draws uni s.rng n                       -- utilities = random_sample(n)
  let live : CState := { s with rng := s.rng + n }
  let restored : CState := { live with rng := saved }  -- set_state(prior)
  let r := simLoop (srsBody allow b) restored utils
  ((idxOf r.1 0, utils), restored)

/-- `update`: bulk counters, then `random_sample(len(candidates))` -/
def srsUpdate (s : CState) (n : Nat) (idx : List Nat) : Except BErr CState :=
  match bitsOf n idx with
  | .error e => .error e
  | .ok bits => .ok { obs := s.obs + n, qd := s.qd + countTrue bits, rng := s.rng + n }

/-- the strategy as a manager over candidates (`Unit`: the features are never looked at) -/
def srsMgr (allow : Bool) (b : α) (uni : Nat → α) : Mgr CState Unit :=
  { query := fun s c => let r := srsQuery allow b uni s c.length; (r.1.1, r.2),
    update := fun s c idx => srsUpdate s c.length idx }

/-! ## PeriodicSampling -/

def perBody (b : α) (t : CState) (_x : Unit) : Bool × CState :=
  let obs := t.obs + 1
  let remaining := (obs : α) * b - (t.qd : α)
  let q := leB 1 remaining
  (q, { t with obs := obs, qd := t.qd + (if q then 1 else 0) })

def perQuery (b : α) (s : CState) (n : Nat) : (List Nat × List α) × CState :=
  let r := simLoop (perBody b) s (List.replicate n ())
  ((idxOf r.1 0, r.1.map (fun q => if q then (1 : α) else 0)), s)

def perUpdate (s : CState) (n : Nat) (idx : List Nat) : Except BErr CState :=
  match bitsOf n idx with
  | .error e => .error e
  | .ok bits => .ok { s with obs := s.obs + bits.length, qd := s.qd + countTrue bits }

def perMgr (b : α) : Mgr CState Unit :=
  { query := fun s c => let r := perQuery b s c.length; (r.1.1, r.2),
    update := fun s c idx => perUpdate s c.length idx }

end Num

/-! ## strategies that delegate to a budget manager -/

section Glue
variable {σ ι κ : Type}

/-- `UncertaintyZliobaite` / `StreamProbabilisticAL`: `utilities = f(clf, candidates)` (oracle `util`),
`query = budget_manager_.query_by_utility(utilities)`, `update = budget_manager_.update(candidates, idx)`. -/
def utilStrategy (util : κ → ι) (M : Mgr σ ι) : Mgr σ κ :=
  { query := fun s c => M.query s (c.map util),
    update := fun s c idx => M.update s (c.map util) idx }

/-- `StreamDensityBasedAL` / `CognitiveDualQueryStrategy.query`, the part that talks to the manager:
`pass[i]` tells whether instance `i` passes the density filter (oracle: the window logic is not
modelled); every instance is judged by a one-element `query_by_utility` against the manager state
from *before the chunk* (queries are pure), instances that fail are shown as NaN or skipped. -/
def densityDecisions (M : Mgr σ (Option ι)) (s : σ) : List (Bool × Option ι) → List Bool
  | [] => []
  | (pass, u) :: rest =>
    (if pass then !(M.query s [u]).1.isEmpty else false) :: densityDecisions M s rest

def densityQuery (M : Mgr σ (Option ι)) (s : σ) (c : List (Bool × Option ι)) : List Nat × σ :=
  (idxOf (densityDecisions M s c) 0, s)

/-- is the instance passed on to the budget manager?  `keepAll` = `StreamDensityBasedAL` or
`force_full_budget=True` (a failing instance is passed on as NaN), otherwise
`CognitiveDualQueryStrategy(force_full_budget=False)` (a failing instance is dropped). -/
def passedOn (keepAll : Bool) (x : Bool × Option ι) : Bool := keepAll || x.1

/-- what is appended to `new_candidates` for an instance that is passed on -/
def entryOf (x : Bool × Option ι) : Option ι := if x.1 then x.2 else none

/-- `new_candidates` of `update` -/
def newCandidates (keepAll : Bool) (c : List (Bool × Option ι)) : List (Option ι) :=
  (c.filter (passedOn keepAll)).map entryOf

/-- `new_positions` of `CognitiveDualQueryStrategy.update` (commit a01696e6): for every instance of
the chunk, its position in `new_candidates` if it is passed on (`k` = `len(new_candidates)` so far). -/
def newPositions (keepAll : Bool) : List (Bool × Option ι) → Nat → List (Option Nat)
  | [], _ => []
  | x :: xs, k =>
    if passedOn keepAll x then some k :: newPositions keepAll xs (k + 1)
    else none :: newPositions keepAll xs k

/-- `[new_positions[i] for i in queried_indices]`; `KeyError` is turned into `IndexError` -/
def remap (pos : List (Option Nat)) : List Nat → Except BErr (List Nat)
  | [] => .ok []
  | i :: is =>
    match pos.getD i none with
    | none => .error .indexError
    | some j =>
      match remap pos is with
      | .ok js => .ok (j :: js)
      | .error e => .error e

/-- `StreamDensityBasedAL.update` (and `CognitiveDualQueryStrategy.update` before commit a01696e6, see
`Ska.C10.Regressions`): the indices are handed to the manager as they are. -/
def densityUpdate (keepAll : Bool) (M : Mgr σ (Option ι)) (s : σ) (c : List (Bool × Option ι))
    (idx : List Nat) : Except BErr σ :=
  M.update s (newCandidates keepAll c) idx

/-- `CognitiveDualQueryStrategy.update` (current code): the indices are translated to positions in
`new_candidates` first. -/
def cognitiveUpdate (ffb : Bool) (M : Mgr σ (Option ι)) (s : σ) (c : List (Bool × Option ι))
    (idx : List Nat) : Except BErr σ :=
  match remap (newPositions ffb c 0) idx with
  | .error e => .error e
  | .ok idx' => M.update s (newCandidates ffb c) idx'

/-- `StreamDensityBasedAL` (`keepAll = true`); with `keepAll = false` the old cognitive strategy -/
def densityStrategy (keepAll : Bool) (M : Mgr σ (Option ι)) : Mgr σ (Bool × Option ι) :=
  { query := densityQuery M, update := densityUpdate keepAll M }

/-- `CognitiveDualQueryStrategy(force_full_budget=ffb)` -/
def cognitiveStrategy (ffb : Bool) (M : Mgr σ (Option ι)) : Mgr σ (Bool × Option ι) :=
  { query := densityQuery M, update := cognitiveUpdate ffb M }

end Glue

end Ska.Budget
