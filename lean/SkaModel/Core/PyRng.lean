import SkaModel.Core.Rng

/-! Runtime of the model translated from `skactiveml.utils.check_random_state` (`Gen/RngGen.lean`, written by
`harness/translate/pyrng.py`): numpy generator *objects* with identity. -/

namespace Ska.PyRng
open Ska.Rng

/-- a `RandomState` object: `stream i` is the value of its `i`-th draw from its state at the time of the call, `taken` how many
draws have been made through it since, `callers` whether it *is* an object the caller owns (the instance passed as
`random_state`, or numpy's global generator): drawing from such an object advances the caller's generator. -/
structure GenObj where
  stream : Stream
  callers : Bool
  taken : Nat

/-- the value of the argument `random_state` -/
inductive RSParam where
  | none
  | int (n : Nat)
  | inst (g : GenObj)

def RSParam.isNone : RSParam → Bool
  | .none => true
  | _ => false

/-- `copy.deepcopy(random_state)`: an equal object that is not the caller's -/
def deepcopy : RSParam → RSParam
  | .inst g => .inst { g with callers := false }
  | p => p

/-- scikit-learn's `check_random_state`: `None` is numpy's global generator, an integer seeds a new generator, an instance is
handed back as it is -/
def check_random_state_sklearn (mk : Nat → Stream) (glob : GenObj) : RSParam → GenObj
  | .none => glob
  | .int n => ⟨mk n, false, 0⟩
  | .inst g => g

/-- `g.randint(1, 2**31)`: the value, the advanced object, and 1 if the caller's generator moved -/
def randint (g : GenObj) : Nat × GenObj × Nat :=
  (g.stream g.taken, { g with taken := g.taken + 1 }, if g.callers then 1 else 0)

/-- `np.random.RandomState(seed)` -/
def newRandomState (mk : Nat → Stream) (seed : Nat) : GenObj := ⟨mk seed, false, 0⟩

end Ska.PyRng
