import SkaModel.Core.Pool

/-!
# The pool active-learning loop (README): query → reveal the returned labels → repeat

A labeling is a mask `List Bool` (`true` = still unlabeled).  `query` is an arbitrary function of the
labeling (it may hide any strategy state that is itself a function of the history).
-/

namespace Ska

/-- number of unlabeled samples -/
def unl (y : List Bool) : Nat := y.count true

/-- reveal the labels of the queried indices -/
def reveal (y : List Bool) (q : List Nat) : List Bool := q.foldl (fun y i => y.set i false) y

/-- the README loop with fuel; returns the list of queried batches -/
def alLoop (query : List Bool → List Nat) : Nat → List Bool → List (List Nat)
  | 0, _ => []
  | k+1, y => if unl y = 0 then [] else
      let q := query y
      q :: alLoop query k (reveal y q)

/-- C01 for `candidates=None` as a Boolean: `min b u` distinct, still unlabeled samples. -/
def validBatchUB (y : List Bool) (b : Nat) (q : List Nat) : Bool :=
  decide (q.length = min b (unl y)) && nodupB q && q.all (fun i => y.getD i false)

/-- Acceptor for a recorded run of the loop on the real code: every batch is valid for the labeling
it was queried on, and the run stops exactly when nothing is unlabeled. -/
def alTraceAccepts (b : Nat) : List Bool → List (List Nat) → Bool
  | y, [] => unl y == 0
  | y, q :: rest => unl y != 0 && validBatchUB y b q && alTraceAccepts b (reveal y q) rest

end Ska
