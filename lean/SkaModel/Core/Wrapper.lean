import SkaModel.Core.Pool

/-!
# Wrapper strategies (model of `skactiveml/pool/_wrapper.py`)

* `ParallelUtilityEstimationWrapper`: `np.array_split` of the candidate rows into chunks, one inner
  query per chunk, concatenation of the first-row utilities, scatter, `simple_batch`.
* `SubSamplingWrapper`: size of the sub-sample, index spaces with and without
  `exclude_non_subsample`, translation of indices and utilities back to the caller's space.

The inner strategy's utilities and the `choice` draw are arguments (oracles).
-/

namespace Ska.Wrapper
open Ska

/-! ## np.array_split -/

/-- numpy: `Neach, extras = divmod(n, k)`; sizes `extras * [Neach+1] + (k-extras) * [Neach]`. -/
def sectionSizes (n k : Nat) : List Nat :=
  List.replicate (n % k) (n / k + 1) ++ List.replicate (k - n % k) (n / k)

def splitBy {γ : Type} : List Nat → List γ → List (List γ)
  | [], _ => []
  | s :: ss, l => l.take s :: splitBy ss (l.drop s)

/-- `np.array_split(l, k)` -/
def arraySplit {γ : Type} (l : List γ) (k : Nat) : List (List γ) := splitBy (sectionSizes l.length k) l

/-- number of chunks: `n_jobs' = min(n_jobs, nCand)`; negative → `min(cpu_count, nCand)` (after the
repair of the empty-chunk defect), else `n_jobs'`. -/
def nChunks (nJobs : Int) (nCand cpu : Nat) : Nat :=
  let j := min nJobs (nCand : Int)
  if j < 0 then min cpu nCand else j.toNat

/-- concatenated first-row utilities of the per-chunk inner queries -/
def parallelUtils {γ δ : Type} (innerChunk : List γ → List δ) (cands : List γ) (k : Nat) : List δ :=
  ((arraySplit cands k).map innerChunk).flatten

/-! ## SubSamplingWrapper -/

/-- `max_candidates` as an integer after `min(·, len(candidates))`; `m` is the int parameter or
`ceil(len * fraction)` (computed by the harness in IEEE arithmetic, as the code does). -/
def subSize (m nCand : Nat) : Nat := min m nCand

/-- numpy contract of `choice(a=cand, size=k, replace=False)` checked on the captured draw. -/
def choiceOkB (cand : List Nat) (k : Nat) (sub : List Nat) : Bool :=
  decide (sub.length = k) && nodupB sub && sub.all (fun i => cand.contains i)

variable {α : Type}

/-- what the code does to one utilities row: `full(nan)`, `[cand] = -inf`, `[sub] = inner[sub]`. -/
def subRowCode (ninf : α) (n : Nat) (cand sub : List Nat) (inner : List (Option α)) : List (Option α) :=
  let r0 : List (Option α) := List.replicate n none
  let r1 := cand.foldl (fun r j => r.set j (some ninf)) r0
  sub.foldl (fun r j => r.set j (inner.getD j none)) r1

/-- the documented row: inner utility on the sub-sample, −inf on other candidates, NaN elsewhere -/
def subRowSpec (ninf : α) (n : Nat) (cand sub : List Nat) (inner : List (Option α)) : List (Option α) :=
  (List.range n).map fun j =>
    if sub.contains j then inner.getD j none else if cand.contains j then some ninf else none

/-- `exclude_non_subsample=True`: the rows handed to the inner strategy (`sort(labeled ++ sub)`). -/
def insertSorted (x : Nat) : List Nat → List Nat
  | [] => [x]
  | y :: ys => if x ≤ y then x :: y :: ys else y :: insertSorted x ys

def sortNat (l : List Nat) : List Nat := l.foldr insertSorted []

def subsetAndLabeled (labeled sub : List Nat) : List Nat := sortNat (labeled ++ sub)

/-- position of `x` in `l` (first occurrence) -/
def posOf (x : Nat) : List Nat → Nat
  | [] => 0
  | y :: ys => if x = y then 0 else posOf x ys + 1

/-- inner-space candidates: positions in `sal` of the sub-sample (= unlabeled rows of `new_y`) -/
def innerCands (sal sub : List Nat) : List Nat := sortNat (sub.map (fun x => posOf x sal))

/-- translate inner-space indices back: `subset_and_labeled_indices[q]` -/
def expand (sal : List Nat) (q : List Nat) : List Nat := q.map (fun p => sal.getD p 0)

end Ska.Wrapper
