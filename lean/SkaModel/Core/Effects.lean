/-!
# Effect summaries of Python methods and their store semantics (C05, C13) — core Lean only

A *summary* is what `harness/translate` extracts from the current source of a method: a small
tree-shaped program over an effect language that only knows about

* the attribute store of `self` (`writeAttr`), local variables / arguments (`bind`),
* how a value was obtained (`alias` of a path, shallow `copy`, `deep` copy = `deepcopy`/`clone`,
  a `fresh` object that captures some values),
* in-place mutation through a path (`mutate`: subscript store, `.update`, `.append`, `+=` …;
  `callFit`: `.fit` / `.partial_fit` / `.set_params` / `.update` of an estimator-like receiver),
* calling a public method of *another* strategy object (`callInner`, wrappers),
* reading an attribute of `self` (`readAttr`, for history-freeness of `fit`),
* two-way branching (`ite`; loops are unrolled by the translator, early exits are re-nested).

Names (locals, attributes, keys) are natural numbers; the generator emits the name tables.

The semantics runs a summary on an arbitrary heap of cells (`Nat → Nat → Val`), with an arbitrary
oracle that decides every branch, every freshly computed value and the new contents of every mutated
cell.  A `deep` copy is one fresh cell whose reference fields point to itself (the private copy is
collapsed to one ownership region); `fit`-like calls replace fields of the receiver by fresh
immutable values (they never store references to caller objects: numpy array aliasing is not
modelled, see DESIGN §4 C05).

`check` is the decidable abstract interpretation of a summary: per variable / attribute two bits,
*safe* (an immutable value, or a reference to a cell that this call may mutate: allocated by the
call itself or privately owned by `self`) and *closed* (safe, and everything reachable from it is
again closed).  All bits of one kind are kept in one natural number so that `by decide` evaluates
`check` by kernel-accelerated bit operations (call-by-value through `forceN`).
-/

namespace Ska.Effects

/-! ## Values, heaps -/

inductive Val where
  | atom (n : Nat)
  | ref (r : Nat)
  deriving DecidableEq, Repr, Inhabited

structure Heap where
  cell : Nat → Nat → Val
  next : Nat

structure St where
  h : Heap
  env : Nat → Val
  clk : Nat

/-! ## Syntax -/

inductive Path where
  | loc (x : Nat)
  | attr (a : Nat)
  | sub (p : Path) (k : Nat)
  deriving Repr

inductive Rhs where
  | alias (p : Path)
  | copy (p : Path)
  | deep (p : Path)
  | fresh (caps : List Path)
  deriving Repr

inductive Atom where
  | bind (x : Nat) (r : Rhs)
  | writeAttr (a : Nat) (r : Rhs)
  | mutate (p : Path) (stored : List Path)
  | callFit (p : Path)
  | callInner (p : Path)
  | readAttr (a : Nat)
  deriving Repr

inductive Prog where
  | skip
  | seq (e : Atom) (rest : Prog)
  | ite (t e rest : Prog)
  deriving Repr

/-- What the translator emits per class and method. -/
structure Summary where
  /-- attribute indices that are constructor parameters -/
  params : List Nat
  /-- fitted attributes that hold private, closed objects on entry and on exit -/
  closedAttrs : List Nat
  /-- fitted attributes that hold objects `self` may mutate (contents may alias anything) -/
  safeAttrs : List Nat
  body : Prog

/-! ## Concrete semantics -/

inductive Choice where
  | keep
  | atom (n : Nat)
  | stored (i : Nat)

structure Ora where
  coin : Nat → Bool
  pick : Nat → Nat → Choice

def Heap.alloc (h : Heap) (o : Nat → Val) : Heap :=
  { cell := fun r => if r = h.next then o else h.cell r, next := h.next + 1 }

def Heap.setCell (h : Heap) (r : Nat) (o : Nat → Val) : Heap :=
  { h with cell := fun r' => if r' = r then o else h.cell r' }

def Heap.setField (h : Heap) (r k : Nat) (v : Val) : Heap :=
  h.setCell r (fun k' => if k' = k then v else h.cell r k')

def St.tick (s : St) : St := { s with clk := s.clk + 1 }

def evalPath (self : Nat) (s : St) : Path → Val
  | .loc x => s.env x
  | .attr a => s.h.cell self a
  | .sub p k =>
    match evalPath self s p with
    | .atom n => .atom n
    | .ref r => s.h.cell r k

/-- The value of the `i`-th captured / stored path, `dflt` if there is none. -/
def pickStored (self : Nat) (s : St) (ps : List Path) (i : Nat) (dflt : Val) : Val :=
  match ps[i]? with
  | some p => evalPath self s p
  | none => dflt

def evalRhs (self : Nat) (ω : Ora) (s : St) : Rhs → Val × Heap
  | .alias p => (evalPath self s p, s.h)
  | .copy p =>
    match evalPath self s p with
    | .atom n => (.atom n, s.h)
    | .ref r => (.ref s.h.next, s.h.alloc (s.h.cell r))
  | .deep p =>
    match evalPath self s p with
    | .atom n => (.atom n, s.h)
    | .ref r =>
      (.ref s.h.next, s.h.alloc (fun k =>
        match s.h.cell r k with
        | .atom n => .atom n
        | .ref _ => .ref s.h.next))
  | .fresh caps =>
    (.ref s.h.next, s.h.alloc (fun k =>
      match ω.pick s.clk k with
      | .keep => .atom 0
      | .atom n => .atom n
      | .stored i => pickStored self s caps i (.atom 0)))

def execAtom (self : Nat) (inner : Nat → Heap → Heap) (ω : Ora) (s : St) : Atom → St
  | .bind x r =>
    match evalRhs self ω s r with
    | (v, h') => { h := h', env := fun y => if y = x then v else s.env y, clk := s.clk + 1 }
  | .writeAttr a r =>
    match evalRhs self ω s r with
    | (v, h') => { h := h'.setField self a v, env := s.env, clk := s.clk + 1 }
  | .mutate p stored =>
    match evalPath self s p with
    | .atom _ => s.tick
    | .ref r =>
      { s with
        h := s.h.setCell r (fun k =>
          match ω.pick s.clk k with
          | .keep => s.h.cell r k
          | .atom n => .atom n
          | .stored i => pickStored self s stored i (s.h.cell r k)),
        clk := s.clk + 1 }
  | .callFit p =>
    match evalPath self s p with
    | .atom _ => s.tick
    | .ref r =>
      { s with
        h := s.h.setCell r (fun k =>
          match ω.pick s.clk k with
          | .atom n => .atom n
          | _ => s.h.cell r k),
        clk := s.clk + 1 }
  | .callInner p =>
    match evalPath self s p with
    | .atom _ => s.tick
    | .ref r => { s with h := inner r s.h, clk := s.clk + 1 }
  | .readAttr _ => s.tick

def run (self : Nat) (inner : Nat → Heap → Heap) (ω : Ora) : Prog → St → St
  | .skip, s => s
  | .seq e rest, s => run self inner ω rest (execAtom self inner ω s e)
  | .ite t e rest, s =>
    run self inner ω rest
      (if ω.coin s.clk then run self inner ω t s.tick else run self inner ω e s.tick)

/-- `get_params(deep=False)` of the object at `self`: the values of its parameter attributes. -/
def getParams (h : Heap) (self : Nat) (ps : List Nat) : List Val := ps.map (h.cell self)

/-! ## Abstract interpretation (decidable) -/

/-- Call-by-value for the kernel: matching on a `Nat` forces it to a literal once. -/
@[inline] def forceN {β : Type} (n : Nat) (k : Nat → β) : β :=
  match n with
  | 0 => k 0
  | m + 1 => k (m + 1)

/-- Bit sets: `ls`/`lc` locals safe/closed, `as`/`ac` attributes safe/closed. -/
structure Abs where
  ls : Nat
  lc : Nat
  as : Nat
  ac : Nat
  deriving Repr, DecidableEq

def Abs.force {β : Type} (A : Abs) (k : Abs → β) : β :=
  forceN A.ls fun a => forceN A.lc fun b => forceN A.as fun c => forceN A.ac fun d => k ⟨a, b, c, d⟩

def setBitTo (n i : Nat) (b : Bool) : Nat :=
  if b then n ||| 2 ^ i else n ^^^ (n &&& 2 ^ i)

def maskOf : List Nat → Nat
  | [] => 0
  | i :: l => 2 ^ i ||| maskOf l

def Abs.join (A B : Abs) : Abs :=
  ⟨A.ls &&& B.ls, A.lc &&& B.lc, A.as &&& B.as, A.ac &&& B.ac⟩

/-- Forget every `closed` fact (kept as `safe`). -/
def Abs.demote (A : Abs) : Abs := ⟨A.ls ||| A.lc, 0, A.as ||| A.ac, 0⟩

/-- Forget everything known about the attributes of `self`. -/
def Abs.forgetAttrs (A : Abs) : Abs := ⟨A.ls, A.lc, 0, 0⟩

/-- `(mutable-without-harm, closed)` of a path. -/
def clsPath (A : Abs) : Path → Bool × Bool
  | .loc x => (A.ls.testBit x || A.lc.testBit x, A.lc.testBit x)
  | .attr a => (A.as.testBit a || A.ac.testBit a, A.ac.testBit a)
  | .sub p _ => ((clsPath A p).2, (clsPath A p).2)

def allClosed (A : Abs) (ps : List Path) : Bool := ps.all fun p => (clsPath A p).2

def clsRhs (A : Abs) : Rhs → Bool × Bool
  | .alias p => clsPath A p
  | .copy p => (true, (clsPath A p).2)
  | .deep _ => (true, true)
  | .fresh caps => (true, allClosed A caps)

def checkAtom (ps : List Nat) (A : Abs) : Atom → Bool × Abs
  | .bind x r =>
    (true, { A with ls := setBitTo A.ls x (clsRhs A r).1, lc := setBitTo A.lc x (clsRhs A r).2 })
  | .writeAttr a r =>
    (!ps.contains a,
     { A with as := setBitTo A.as a (clsRhs A r).1, ac := setBitTo A.ac a (clsRhs A r).2 })
  | .mutate p stored => ((clsPath A p).1, if allClosed A stored then A else A.demote)
  | .callFit p => ((clsPath A p).1, A)
  | .callInner _ => (true, A.forgetAttrs)
  | .readAttr _ => (true, A)

def check (ps : List Nat) : Prog → Abs → Bool × Abs
  | .skip, A => (true, A)
  | .seq e rest, A => A.force fun A =>
    match checkAtom ps A e with
    | (ok, A') =>
      match check ps rest A' with
      | (ok', A'') => (ok && ok', A'')
  | .ite t e rest, A => A.force fun A =>
    match check ps t A, check ps e A with
    | (ok₁, A₁), (ok₂, A₂) =>
      match check ps rest (A₁.join A₂) with
      | (ok₃, A₃) => (ok₁ && ok₂ && ok₃, A₃)

def Abs.init (S : Summary) : Abs := ⟨0, 0, maskOf S.safeAttrs, maskOf S.closedAttrs⟩

/-- Exit condition: the declared private attributes are private again. -/
def exitOK (S : Summary) (A : Abs) : Bool :=
  S.closedAttrs.all (fun a => A.ac.testBit a) &&
  S.safeAttrs.all (fun a => A.as.testBit a || A.ac.testBit a)

/-- The decidable frame predicate of a summary: no write to a constructor parameter, every in-place
mutation and every `fit`-like call goes through a value that is certainly private to this call or
to `self`, and the declared private attributes are private again on exit. -/
def FrameOK (S : Summary) : Bool :=
  match check S.params S.body (Abs.init S) with
  | (ok, A) => ok && exitOK S A

/-! ## Read-before-write analysis for `fit` (history-freeness, C13) -/

def pathReads : Path → List Nat
  | .loc _ => []
  | .attr a => [a]
  | .sub p _ => pathReads p

def rhsReads : Rhs → List Nat
  | .alias p => pathReads p
  | .copy p => pathReads p
  | .deep p => pathReads p
  | .fresh caps => caps.flatMap pathReads

/-- attributes of `self` whose current value the atom looks at -/
def atomReads : Atom → List Nat
  | .bind _ r => rhsReads r
  | .writeAttr _ r => rhsReads r
  | .mutate p stored => pathReads p ++ stored.flatMap pathReads
  | .callFit p => pathReads p
  | .callInner p => pathReads p
  | .readAttr a => [a]

/-- `W` is the bit set of attributes certainly written so far in this call. -/
def histAtom (ps : List Nat) (W : Nat) (e : Atom) : Bool × Nat :=
  ((atomReads e).all (fun a => ps.contains a || W.testBit a),
   match e with
   | .writeAttr a _ => W ||| 2 ^ a
   | _ => W)

def histCheck (ps : List Nat) : Prog → Nat → Bool × Nat
  | .skip, W => (true, W)
  | .seq e rest, W => forceN W fun W =>
    match histAtom ps W e with
    | (ok, W') =>
      match histCheck ps rest W' with
      | (ok', W'') => (ok && ok', W'')
  | .ite t e rest, W => forceN W fun W =>
    match histCheck ps t W, histCheck ps e W with
    | (ok₁, W₁), (ok₂, W₂) =>
      match histCheck ps rest (W₁ &&& W₂) with
      | (ok₃, W₃) => (ok₁ && ok₂ && ok₃, W₃)

/-- A `fit` summary is history free when it never looks at a non-parameter attribute of `self`
that it has not itself (certainly) written before in the same call. -/
def HistoryFree (S : Summary) : Bool := (histCheck S.params S.body 0).1

/-- Data-flow semantics for history-freeness: the object is its attribute map; every value the
method computes (`val`) and every branch it takes (`cond`) is an arbitrary function of the program
point and of the values of `self` attributes read so far (arguments are fixed and live in `F`). -/
structure HOra where
  val : Nat → List Val → Val
  cond : Nat → List Val → Bool

structure HSt where
  obj : Nat → Val
  log : List Val
  clk : Nat

def hAtom (F : HOra) (s : HSt) (e : Atom) : HSt :=
  let log' := (atomReads e).map s.obj ++ s.log
  match e with
  | .writeAttr a _ =>
    { obj := fun k => if k = a then F.val s.clk log' else s.obj k, log := log', clk := s.clk + 1 }
  | _ => { s with log := log', clk := s.clk + 1 }

def hRun (F : HOra) : Prog → HSt → HSt
  | .skip, s => s
  | .seq e rest, s => hRun F rest (hAtom F s e)
  | .ite t e rest, s =>
    hRun F rest
      (if F.cond s.clk s.log then hRun F t { s with clk := s.clk + 1 }
       else hRun F e { s with clk := s.clk + 1 })

end Ska.Effects
