/-!
# Effect summaries of Python methods and their store semantics (C05, C13) — core Lean only

A *summary* is what `harness/translate` extracts from the current source of a method: a small
tree-shaped program over an effect language that only knows about

* the attribute store of `self` (`writeAttr`), local variables / arguments (`bind`),
* how a value was obtained (`alias` of a path, shallow `copy`, `deep` copy = `deepcopy`/`clone`,
  a `fresh` object that captures some values),
* in-place mutation through a path (`mutate`: subscript store, `.update`, `.append`, `+=` …;
  `callFit`: `.fit` / `.partial_fit` / `.set_params` / `.update` of an estimator-like receiver),
* calling a public method of *another* strategy object (`callInner`, wrappers),
* reading an attribute of `self` (`readAttr`, for history-freeness of `fit`),
* two-way branching (`ite`; loops are unrolled by the translator, early exits are re-nested).

Names (locals, attributes, keys) are natural numbers; the generator emits the name tables.

The semantics runs a summary on an arbitrary heap of cells (`Nat → Nat → Val`), with an arbitrary
oracle that decides every branch, every freshly computed value and the new contents of every mutated
cell.  A `deep` copy is one fresh cell whose reference fields point to itself (the private copy is
collapsed to one ownership region); `fit`-like calls replace fields of the receiver by fresh
immutable values (they never store references to caller objects: numpy array aliasing is not
modelled, see DESIGN §4 C05).

`check` is the decidable abstract interpretation of a summary: per variable / attribute three bits
(`Cls`): *mutable without harm* (an immutable value, or a reference to a cell allocated by the call
itself or privately owned by `self`), *closed* (an immutable value or a reference to a mutable cell
from which only closed cells are reachable) and *certainly not closed*.  All bits of one kind are kept in one natural number so that `by decide` evaluates
`check` by kernel-accelerated bit operations (call-by-value through `forceN`).
-/

namespace Ska.Effects

/-! ## Values, heaps -/

inductive Val where
  | atom (n : Nat)
  | ref (r : Nat)
  deriving DecidableEq, Repr, Inhabited

structure Heap where
  cell : Nat → Nat → Val
  next : Nat

structure St where
  h : Heap
  env : Nat → Val
  clk : Nat
  /-- set when the method has left by an exception -/
  dead : Bool := false

/-! ## Syntax -/

inductive Path where
  | loc (x : Nat)
  | attr (a : Nat)
  | sub (p : Path) (k : Nat)
  deriving Repr

inductive Rhs where
  | alias (p : Path)
  | copy (p : Path)
  | deep (p : Path)
  | fresh (caps : List Path)
  deriving Repr

inductive Atom where
  | bind (x : Nat) (r : Rhs)
  | writeAttr (a : Nat) (r : Rhs)
  | mutate (p : Path) (stored : List Path)
  | callFit (p : Path)
  | callInner (p : Path)
  | readAttr (a : Nat)
  deriving Repr

inductive Prog where
  | skip
  /-- the method leaves by an exception (`raise`): nothing after it runs -/
  | abort
  | seq (e : Atom) (rest : Prog)
  | ite (t e rest : Prog)
  deriving Repr

/-- What the translator emits per class and method. -/
structure Summary where
  /-- attribute indices that are constructor parameters -/
  params : List Nat
  /-- fitted attributes that hold private, closed objects on entry and on exit -/
  closedAttrs : List Nat
  /-- fitted attributes that hold objects `self` may mutate (contents may alias anything) -/
  safeAttrs : List Nat
  body : Prog

/-! ## Concrete semantics -/

inductive Choice where
  | keep
  | atom (n : Nat)
  | stored (i : Nat)

structure Ora where
  coin : Nat → Bool
  pick : Nat → Nat → Choice

def Heap.alloc (h : Heap) (o : Nat → Val) : Heap :=
  { cell := fun r => if r = h.next then o else h.cell r, next := h.next + 1 }

def Heap.setCell (h : Heap) (r : Nat) (o : Nat → Val) : Heap :=
  { h with cell := fun r' => if r' = r then o else h.cell r' }

def Heap.setField (h : Heap) (r k : Nat) (v : Val) : Heap :=
  h.setCell r (fun k' => if k' = k then v else h.cell r k')

def St.tick (s : St) : St := { s with clk := s.clk + 1 }

def evalPath (self : Nat) (s : St) : Path → Val
  | .loc x => s.env x
  | .attr a => s.h.cell self a
  | .sub p k =>
    match evalPath self s p with
    | .atom n => .atom n
    | .ref r => s.h.cell r k

/-- The value of the `i`-th captured / stored path, `dflt` if there is none. -/
def pickStored (self : Nat) (s : St) (ps : List Path) (i : Nat) (dflt : Val) : Val :=
  match ps[i]? with
  | some p => evalPath self s p
  | none => dflt

def evalRhs (self : Nat) (ω : Ora) (s : St) : Rhs → Val × Heap
  | .alias p => (evalPath self s p, s.h)
  | .copy p =>
    match evalPath self s p with
    | .atom n => (.atom n, s.h)
    | .ref r => (.ref s.h.next, s.h.alloc (s.h.cell r))
  | .deep p =>
    match evalPath self s p with
    | .atom n => (.atom n, s.h)
    | .ref r =>
      (.ref s.h.next, s.h.alloc (fun k =>
        match s.h.cell r k with
        | .atom n => .atom n
        | .ref _ => .ref s.h.next))
  | .fresh caps =>
    (.ref s.h.next, s.h.alloc (fun k =>
      match ω.pick s.clk k with
      | .keep => .atom 0
      | .atom n => .atom n
      | .stored i => pickStored self s caps i (.atom 0)))

def execAtom (self : Nat) (inner : Nat → Heap → Heap) (ω : Ora) (s : St) : Atom → St
  | .bind x r =>
    match evalRhs self ω s r with
    | (v, h') => { s with h := h', env := fun y => if y = x then v else s.env y, clk := s.clk + 1 }
  | .writeAttr a r =>
    match evalRhs self ω s r with
    | (v, h') => { s with h := h'.setField self a v, clk := s.clk + 1 }
  | .mutate p stored =>
    match evalPath self s p with
    | .atom _ => s.tick
    | .ref r =>
      { s with
        h := s.h.setCell r (fun k =>
          match ω.pick s.clk k with
          | .keep => s.h.cell r k
          | .atom n => .atom n
          | .stored i => pickStored self s stored i (s.h.cell r k)),
        clk := s.clk + 1 }
  | .callFit p =>
    match evalPath self s p with
    | .atom _ => s.tick
    | .ref r =>
      { s with
        h := s.h.setCell r (fun k =>
          match ω.pick s.clk k with
          | .atom n => .atom n
          | _ => s.h.cell r k),
        clk := s.clk + 1 }
  | .callInner p =>
    match evalPath self s p with
    | .atom _ => s.tick
    | .ref r => { s with h := inner r s.h, clk := s.clk + 1 }
  | .readAttr _ => s.tick

def run (self : Nat) (inner : Nat → Heap → Heap) (ω : Ora) : Prog → St → St
  | .skip, s => s
  | .abort, s => { s with dead := true }
  | .seq e rest, s => run self inner ω rest (execAtom self inner ω s e)
  | .ite t e rest, s =>
    let s' := if ω.coin s.clk then run self inner ω t s.tick else run self inner ω e s.tick
    if s'.dead then s' else run self inner ω rest s'

/-- `get_params(deep=False)` of the object at `self`: the values of its parameter attributes. -/
def getParams (h : Heap) (self : Nat) (ps : List Nat) : List Val := ps.map (h.cell self)

/-! ## Abstract interpretation (decidable) -/

/-- Call-by-value for the kernel: matching on a `Nat` forces it to a literal once. -/
@[inline] def forceN {β : Type} (n : Nat) (k : Nat → β) : β :=
  match n with
  | 0 => k 0
  | m + 1 => k (m + 1)

/-- What is known about a value: `m` = it may be mutated in place without the caller noticing (an
immutable value, or a reference to a cell allocated by this call or privately owned by `self`);
`c` = closed (an immutable value or a reference to a mutable cell from which only closed cells are
reachable); `n` = certainly not a closed cell (so storing anything into it cannot break closedness). -/
structure Cls where
  m : Bool
  c : Bool
  n : Bool
  deriving Repr, DecidableEq

/-- Bit sets (one bit per variable): `lm`/`lc`/`ln` for locals, `am`/`ac`/`an` for attributes of
`self`. -/
structure Abs where
  lm : Nat
  lc : Nat
  ln : Nat
  am : Nat
  ac : Nat
  an : Nat
  deriving Repr, DecidableEq

def Abs.force {β : Type} (A : Abs) (k : Abs → β) : β :=
  forceN A.lm fun a => forceN A.lc fun b => forceN A.ln fun c =>
  forceN A.am fun d => forceN A.ac fun e => forceN A.an fun f => k ⟨a, b, c, d, e, f⟩

def setBitTo (n i : Nat) (b : Bool) : Nat :=
  if b then n ||| 2 ^ i else n ^^^ (n &&& 2 ^ i)

def maskOf : List Nat → Nat
  | [] => 0
  | i :: l => 2 ^ i ||| maskOf l

def Abs.join (A B : Abs) : Abs :=
  ⟨A.lm &&& B.lm, A.lc &&& B.lc, A.ln &&& B.ln, A.am &&& B.am, A.ac &&& B.ac, A.an &&& B.an⟩

/-- Forget every `closed` fact: afterwards no cell counts as closed, so everything that was mutable
or closed is mutable and not closed. -/
def Abs.demote (A : Abs) : Abs :=
  ⟨A.lm ||| A.lc, 0, A.lm ||| A.lc ||| A.ln, A.am ||| A.ac, 0, A.am ||| A.ac ||| A.an⟩

/-- Forget everything known about the attributes of `self`. -/
def Abs.forgetAttrs (A : Abs) : Abs := ⟨A.lm, A.lc, A.ln, 0, 0, 0⟩

def clsPath (A : Abs) : Path → Cls
  | .loc x => ⟨A.lm.testBit x, A.lc.testBit x, A.ln.testBit x⟩
  | .attr a => ⟨A.am.testBit a, A.ac.testBit a, A.an.testBit a⟩
  | .sub p _ => ⟨(clsPath A p).c, (clsPath A p).c, false⟩

/-- may the object behind the path be mutated in place without the caller noticing? -/
def mutOK (A : Abs) (p : Path) : Bool := (clsPath A p).m || (clsPath A p).c

def allClosed (A : Abs) (ps : List Path) : Bool := ps.all fun p => (clsPath A p).c

def clsRhs (A : Abs) : Rhs → Cls
  | .alias p => clsPath A p
  | .copy p => ⟨true, (clsPath A p).c, !(clsPath A p).c⟩
  | .deep _ => ⟨true, true, false⟩
  | .fresh caps => ⟨true, allClosed A caps, !allClosed A caps⟩

def Abs.setLoc (A : Abs) (x : Nat) (k : Cls) : Abs :=
  { A with lm := setBitTo A.lm x k.m, lc := setBitTo A.lc x k.c, ln := setBitTo A.ln x k.n }

def Abs.setAttr (A : Abs) (a : Nat) (k : Cls) : Abs :=
  { A with am := setBitTo A.am a k.m, ac := setBitTo A.ac a k.c, an := setBitTo A.an a k.n }

def checkAtom (ps : List Nat) (A : Abs) : Atom → Bool × Abs
  | .bind x r => (true, A.setLoc x (clsRhs A r))
  | .writeAttr a r => (!ps.contains a, A.setAttr a (clsRhs A r))
  | .mutate p stored =>
    (mutOK A p, if (clsPath A p).n || allClosed A stored then A else A.demote)
  | .callFit p => (mutOK A p, A)
  | .callInner _ => (true, A.forgetAttrs)
  | .readAttr _ => (true, A)

def Abs.init (S : Summary) : Abs :=
  ⟨0, 0, 0, maskOf S.safeAttrs ||| maskOf S.closedAttrs, maskOf S.closedAttrs, 0⟩

/-- Exit condition: the declared private attributes are private again. -/
def exitOK (S : Summary) (A : Abs) : Bool :=
  S.closedAttrs.all (fun a => A.ac.testBit a) &&
  S.safeAttrs.all (fun a => A.am.testBit a || A.ac.testBit a)

/-- join of the abstract states of two branches; `none` = the branch always leaves by an exception -/
def joinO : Option Abs → Option Abs → Option Abs
  | none, r => r
  | r, none => r
  | some a, some b => some (a.join b)

/-- Abstract interpretation.  Result: all checked atoms were fine (and every exceptional exit left the
declared private attributes private), and the abstract state at the normal exit (`none` if the
program always leaves by an exception). -/
def check (S : Summary) : Prog → Abs → Bool × Option Abs
  | .skip, A => (true, some A)
  | .abort, A => (exitOK S A, none)
  | .seq e rest, A => A.force fun A =>
    match checkAtom S.params A e with
    | (ok, A') =>
      match check S rest A' with
      | (ok', r) => (ok && ok', r)
  | .ite t e rest, A => A.force fun A =>
    match check S t A, check S e A with
    | (ok₁, r₁), (ok₂, r₂) =>
      match joinO r₁ r₂ with
      | none => (ok₁ && ok₂, none)
      | some J =>
        match check S rest J with
        | (ok₃, r₃) => (ok₁ && ok₂ && ok₃, r₃)

/-- The decidable frame predicate of a summary: no write to a constructor parameter, every in-place
mutation and every `fit`-like call goes through a value that is certainly private to this call or
to `self`, and the declared private attributes are private again on every exit. -/
def FrameOK (S : Summary) : Bool :=
  match check S S.body (Abs.init S) with
  | (ok, none) => ok
  | (ok, some A) => ok && exitOK S A

/-! ## Read-before-write analysis for `fit` (history-freeness, C13) -/

def pathReads : Path → List Nat
  | .loc _ => []
  | .attr a => [a]
  | .sub p _ => pathReads p

def rhsReads : Rhs → List Nat
  | .alias p => pathReads p
  | .copy p => pathReads p
  | .deep p => pathReads p
  | .fresh caps => caps.flatMap pathReads

/-- attributes of `self` whose current value the atom looks at -/
def atomReads : Atom → List Nat
  | .bind _ r => rhsReads r
  | .writeAttr _ r => rhsReads r
  | .mutate p stored => pathReads p ++ stored.flatMap pathReads
  | .callFit p => pathReads p
  | .callInner p => pathReads p
  | .readAttr a => [a]

/-- `W` is the bit set of attributes certainly written so far in this call. -/
def histAtom (ps : List Nat) (W : Nat) (e : Atom) : Bool × Nat :=
  ((atomReads e).all (fun a => ps.contains a || W.testBit a),
   match e with
   | .writeAttr a _ => W ||| 2 ^ a
   | _ => W)

def joinW : Option Nat → Option Nat → Option Nat
  | none, r => r
  | r, none => r
  | some a, some b => some (a &&& b)

def histCheck (ps : List Nat) : Prog → Nat → Bool × Option Nat
  | .skip, W => (true, some W)
  | .abort, _ => (true, none)
  | .seq e rest, W => forceN W fun W =>
    match histAtom ps W e with
    | (ok, W') =>
      match histCheck ps rest W' with
      | (ok', r) => (ok && ok', r)
  | .ite t e rest, W => forceN W fun W =>
    match histCheck ps t W, histCheck ps e W with
    | (ok₁, r₁), (ok₂, r₂) =>
      match joinW r₁ r₂ with
      | none => (ok₁ && ok₂, none)
      | some J =>
        match histCheck ps rest J with
        | (ok₃, r₃) => (ok₁ && ok₂ && ok₃, r₃)

/-- bit set of every attribute the program may write (on some path) -/
def mayWrite : Prog → Nat
  | .skip => 0
  | .abort => 0
  | .seq (.writeAttr a _) rest => 2 ^ a ||| mayWrite rest
  | .seq _ rest => mayWrite rest
  | .ite t e rest => mayWrite t ||| mayWrite e ||| mayWrite rest

/-- A `fit` summary is history free when (i) it never looks at a non-parameter attribute of `self`
that it has not itself (certainly) written before in the same call, and (ii) every attribute it may
write is certainly written on every normal exit (no conditional write can leave a value of an
earlier fit in place). -/
def HistoryFree (S : Summary) : Bool :=
  match histCheck S.params S.body 0 with
  | (ok, none) => ok
  | (ok, some W) => ok && (mayWrite S.body &&& W == mayWrite S.body)

/-- Data-flow semantics for history-freeness: the object is its attribute map; every value the
method computes (`val`) and every branch it takes (`cond`) is an arbitrary function of the program
point and of the values of `self` attributes read so far (arguments are fixed and live in `F`). -/
structure HOra where
  val : Nat → List Val → Val
  cond : Nat → List Val → Bool

structure HSt where
  obj : Nat → Val
  log : List Val
  clk : Nat
  dead : Bool := false

def hAtom (F : HOra) (s : HSt) (e : Atom) : HSt :=
  let log' := (atomReads e).map s.obj ++ s.log
  match e with
  | .writeAttr a _ =>
    { s with obj := fun k => if k = a then F.val s.clk log' else s.obj k, log := log', clk := s.clk + 1 }
  | _ => { s with log := log', clk := s.clk + 1 }

def hRun (F : HOra) : Prog → HSt → HSt
  | .skip, s => s
  | .abort, s => { s with dead := true }
  | .seq e rest, s => hRun F rest (hAtom F s e)
  | .ite t e rest, s =>
    let s' := if F.cond s.clk s.log then hRun F t { s with clk := s.clk + 1 }
              else hRun F e { s with clk := s.clk + 1 }
    if s'.dead then s' else hRun F rest s'

/-! ## Pure readers (`predict*`, `sample*`): nothing of `self` is written or mutated -/

def Path.isSelf : Path → Bool
  | .attr _ => true
  | .sub p _ => p.isSelf
  | .loc _ => false

/-- the summary writes no attribute of `self` and mutates nothing through an attribute path of `self` -/
def pureReader : Prog → Bool
  | .skip => true
  | .abort => true
  | .seq (.writeAttr _ _) _ => false
  | .seq (.mutate p _) rest => !p.isSelf && pureReader rest
  | .seq (.callFit p) rest => !p.isSelf && pureReader rest
  | .seq _ rest => pureReader rest
  | .ite t e rest => pureReader t && pureReader e && pureReader rest

end Ska.Effects
