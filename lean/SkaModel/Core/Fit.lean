import SkaModel.Core.Classifier

/-!
# What the supervised learners are fitted on (model of the `is_lbld` filtering in
`classifier/_wrapper.py`, `regressor/_wrapper.py`, `regressor/_nic_kernel_regressor.py`,
`classifier/multiannotator/_annotator_logistic_regression.py`, and of the vote vectors used by
`classifier/_parzen_window_classifier.py`)

Core Lean only.  A training set is a list of rows `(x, y?, w)`: features `x : ξ` (any type), label
`y? : Option ζ` (`none` = missing label), weight `w : ω`.  When `sample_weight=None` the weight
components are ignored (`hasW = false`).  Wrapped estimators are arbitrary functions of the arguments
they are called with.
-/

namespace Ska.Fit
open Ska.Classifier

section Filter
variable {ξ ζ ω : Type}

def isLabeledRow (r : ξ × Option ζ × ω) : Bool := r.2.1.isSome

def stripRow (r : ξ × Option ζ × ω) : Option (ξ × ζ × ω) :=
  match r.2.1 with
  | some y => some (r.1, y, r.2.2)
  | none => none

/-- `X[is_lbld], y[is_lbld], sample_weight[is_lbld]` as rows. -/
def filterLabeled (d : List (ξ × Option ζ × ω)) : List (ξ × ζ × ω) := d.filterMap stripRow

/-- a wrapper's fit: the wrapped estimator sees exactly the labeled rows. -/
def fitWrapped {M : Type} (est : List (ξ × ζ × ω) → M) (d : List (ξ × Option ζ × ω)) : M :=
  est (filterLabeled d)

/-- revealing the label of sample `i` (the step of an active-learning cycle). -/
def reveal (d : List (ξ × Option ζ × ω)) (iy : Nat × ζ) : List (ξ × Option ζ × ω) :=
  match d[iy.1]? with
  | some r => d.set iy.1 (r.1, some iy.2, r.2.2)
  | none => d

def revealAll (d : List (ξ × Option ζ × ω)) (rs : List (Nat × ζ)) : List (ξ × Option ζ × ω) :=
  rs.foldl reveal d

end Filter

/-! ## `SklearnClassifier._fit` -/

section Sklearn
variable {ξ ω : Type}

/-- the arguments of the wrapped estimator's `fit` / `partial_fit`: `X`, encoded `y`, optional weights. -/
abbrev FitCall (ξ ω : Type) := List ξ × List Nat × Option (List ω)

structure SkFit (ξ ω : Type) where
  /-- `_label_counts` -/
  counts : List Nat
  /-- `none`: "There is no labeled data." is raised before the estimator is touched (`is_fitted_ = False`) -/
  call : Option (FitCall ξ ω)

def hasClass (c : Nat) (r : ξ × Nat × ω) : Bool := r.2.1 == c

/-- `_label_counts = [np.sum(y[is_lbld] == c) for c in range(k)]`. -/
def labelCounts (k : Nat) (d : List (ξ × Option Nat × ω)) : List Nat :=
  (List.range k).map (fun c => ((filterLabeled d).filter (hasClass c)).length)

/-- `acceptsW` = `has_fit_parameter(estimator, "sample_weight")`, `hasW` = `sample_weight is not None`. -/
def sklearnFit (k : Nat) (acceptsW hasW : Bool) (d : List (ξ × Option Nat × ω)) : SkFit ξ ω :=
  let l := filterLabeled d
  { counts := labelCounts k d,
    call := if l.isEmpty then none
            else some (l.map (·.1), l.map (·.2.1), if acceptsW && hasW then some (l.map (·.2.2)) else none) }

end Sklearn

/-! ## `SklearnRegressor._fit`, `NICKernelRegressor.fit` -/

section Regr
variable {ξ : Type} {α : Type} [Add α] [LT α] [DecidableLT α] [OfNat α 0]

/-- `SklearnRegressor._fit`: the estimator is always called (also with zero rows), weights are passed
whenever they are given. -/
def regressorFit (hasW : Bool) (d : List (ξ × Option α × α)) : List ξ × List α × Option (List α) :=
  let l := filterLabeled d
  (l.map (·.1), l.map (·.2.1), if hasW then some (l.map (·.2.2)) else none)

inductive FitErr where
  | zeroWeights    -- NIC: "The sample weights of the labeled samples must not be all zero."
  deriving Repr, DecidableEq

/-- `NICKernelRegressor.fit`: `X_, y_, weights_`; raises when weights are given and sum to zero. -/
def nicFit (hasW : Bool) (d : List (ξ × Option α × α)) : Except FitErr (List ξ × List α × Option (List α)) :=
  let l := filterLabeled d
  if hasW then
    let s := sumL (l.map (·.2.2))
    if (0 : α) < s || s < (0 : α) then .ok (l.map (·.1), l.map (·.2.1), some (l.map (·.2.2)))
    else .error .zeroWeights
  else .ok (l.map (·.1), l.map (·.2.1), none)

end Regr

/-! ## `AnnotatorLogisticRegression.fit` -/

section Alr
variable {ξ ζ ω : Type}

def anyLabeled (r : ξ × List (Option ζ) × List ω) : Bool := r.2.1.any Option.isSome

/-- `is_lbld = is_labeled(y).any(axis=-1); X = X[is_lbld]; y = y[is_lbld]; sample_weight =
sample_weight[is_lbld]` — rows without any annotation are dropped before the EM algorithm starts. -/
def alrFit (hasW : Bool) (d : List (ξ × List (Option ζ) × List ω)) :
    List ξ × List (List (Option ζ)) × Option (List (List ω)) :=
  let l := d.filter anyLabeled
  (l.map (·.1), l.map (·.2.1), if hasW then some (l.map (·.2.2)) else none)

end Alr

/-! ## Parzen window frequencies from rows -/

section Pwc
variable {ξ : Type} {α : Type} [Add α] [Mul α] [OfNat α 0]

/-- entry `c` of the vote vector of one row: the weight for the row's class, `0` elsewhere and for a
missing label (`compute_vote_vectors`, one annotator). -/
def vote (r : ξ × Option Nat × α) (c : Nat) : α :=
  match r.2.1 with
  | some y => if y = c then r.2.2 else 0
  | none => 0

/-- `predict_freq(x)[c] = Σ_i k(x, x_i) · V_i[c]` (fixed kernel, no neighbour limit). -/
def predictFreq (kern : ξ → α) (d : List (ξ × Option Nat × α)) (c : Nat) : α :=
  sumL (d.map (fun r => kern r.1 * vote r c))

end Pwc

end Ska.Fit
