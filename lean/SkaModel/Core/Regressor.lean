import SkaModel.Core.Classifier

/-!
# Probabilistic regressors (model of `skactiveml/base.py` `ProbabilisticRegressor`,
`regressor/_nic_kernel_regressor.py`, `regressor/_wrapper.py`)

Core Lean only; number-valued definitions are generic in the carrier (run at `Float`, proved over a
linear ordered field).  Kernel rows, the wrapped estimator's outputs, the frozen distribution's
`mean/std/entropy` and random draws are explicit arguments.
-/

namespace Ska.Regressor
open Ska.Classifier

/-! ## `ProbabilisticRegressor.predict` / `sample_y` -/

section Predict
variable {α : Type}

/-- what the frozen `scipy.stats` distribution returned by `predict_target_distribution` reports. -/
structure Dist (α : Type) where
  mean : List α
  std : List α
  entropy : List α

/-- the return value of `predict`: a bare array or a tuple of arrays. -/
inductive PredictOut (α : Type) where
  | single (mean : List α)
  | tuple (parts : List (List α))

/-- ```
result = (rv.mean(),)
if return_std: result += (rv.std(),)
if return_entropy: result += (rv.entropy(),)
if len(result) == 1: result = result[0]
``` -/
def predictParts (d : Dist α) (returnStd returnEnt : Bool) : List (List α) :=
  [d.mean] ++ (if returnStd then [d.std] else []) ++ (if returnEnt then [d.entropy] else [])

def predictOut (d : Dist α) (returnStd returnEnt : Bool) : PredictOut α :=
  let result := predictParts d returnStd returnEnt
  if result.length = 1 then .single d.mean else .tuple result

variable [OfNat α 0]

/-- `rv.rvs(size=(n_samples, len(X))).T`: `draws` has `n_samples` rows of `n_query` entries. -/
def sampleY (nQuery : Nat) (draws : List (List α)) : List (List α) := transposeM nQuery draws

end Predict

section Num
variable {α : Type} [Add α] [Sub α] [Mul α] [Div α] [LT α] [DecidableLT α] [OfNat α 0] [OfNat α 1]

def sqr (x : α) : α := x * x

/-! ## `NICKernelRegressor` -/

/-- `K = weights_.reshape(1, -1) * K` (one row). -/
def weightRow (w : Option (List α)) (krow : List α) : List α :=
  match w with
  | none => krow
  | some w => List.zipWith (· * ·) w krow

/-- `_estimate_ml_params` for one query point: `N = Σk`, `μ = (k·y)/N`, `var = 1/N · Σ k (y−μ)²`. -/
def estimateMl (krow y : List α) : α × α × α :=
  let N := sumL krow
  let mu := sumL (List.zipWith (· * ·) krow y) / N
  let scatter := sumL (List.zipWith (fun k yi => k * sqr (yi - mu)) krow y)
  (N, mu, (1 : α) / N * scatter)

/-- normal-inverse-chi-squared parameters `(κ, ν, μ, σ²)`. -/
structure NIC (α : Type) where
  kappa : α
  nu : α
  mu : α
  sigmaSq : α

/-- `_estimate_update_params`: neutral `(0,0,0,0)` without labeled data, else `(N, N, μ_ml, var_ml)`. -/
def updateParams (w : Option (List α)) (krow y : List α) : NIC α :=
  if y.length = 0 then ⟨0, 0, 0, 0⟩
  else
    let (N, mu, var) := estimateMl (weightRow w krow) y
    ⟨N, N, mu, var⟩

/-- `_combine_params` (operations in the order Python evaluates them). -/
def combineParams (p u : NIC α) : NIC α :=
  let kappa := p.kappa + u.kappa
  let nu := p.nu + u.nu
  let mu := (p.kappa * p.mu + u.kappa * u.mu) / kappa
  let scatter := p.nu * p.sigmaSq + u.nu * u.sigmaSq + p.kappa * u.kappa * sqr (p.mu - u.mu) / kappa
  ⟨kappa, nu, mu, scatter / nu⟩

/-- the square of the `scale` handed to `scipy.stats.t`: `(1 + κ)/κ · σ²`. -/
def scaleSq (post : NIC α) : α := ((1 : α) + post.kappa) / post.kappa * post.sigmaSq

/-- posterior for one query point. -/
def nicPosterior (prior : NIC α) (w : Option (List α)) (krow y : List α) : NIC α :=
  combineParams prior (updateParams w krow y)

/-- variance of Student's t with `df = ν`, `scale² = s2`: `ν/(ν−2)·s2` when `ν > 2`; otherwise scipy
reports `inf` (`1 < ν ≤ 2`) or `nan` (`ν ≤ 1`), modelled as `none`. -/
def tVariance (nu s2 : α) : Option α :=
  if (1 : α) + 1 < nu then some (nu / (nu - ((1 : α) + 1)) * s2) else none

/-! ## `SklearnRegressor` fallback -/

/-- `_label_mean = np.mean(y[is_lbld]) if np.sum(is_lbld) > 0 else 0`. -/
def labelMean (ys : List α) : α :=
  if 0 < ys.length then sumL ys / natTo ys.length else 0

/-- `np.var(y[is_lbld])` (population variance, as `np.std` computes it before the square root). -/
def labelVar (ys : List α) : α :=
  let m := sumL ys / natTo ys.length
  sumL (ys.map (fun y => sqr (y - m))) / natTo ys.length

/-- `_label_std = np.std(y[is_lbld]) if np.sum(is_lbld) > 1 else 1`. -/
def labelStd (sqrt : α → α) (ys : List α) : α :=
  if 1 < ys.length then sqrt (labelVar ys) else 1

/-- `SklearnRegressor.predict`: delegate to the fitted estimator; on `NotFittedError` return the label
mean (and, with `return_std`, the label standard deviation) for every query point. -/
def wrapperPredict (sqrt : α → α) (estFitted : Bool) (estMean : List α) (estStd : Option (List α))
    (ys : List α) (nQuery : Nat) (returnStd : Bool) : List α × Option (List α) :=
  if estFitted then (estMean, estStd)
  else (List.replicate nQuery (labelMean ys),
        if returnStd then some (List.replicate nQuery (labelStd sqrt ys)) else none)

/-- `scipy.stats.norm(loc, scale).mean()`: scipy reports NaN (`none`) unless `scale > 0`. -/
def normMean (loc scale : α) : Option α := if (0 : α) < scale then some loc else none

/-- `scipy.stats.norm(loc, scale).std()`: scipy takes the square root of the variance `scale²`
(so a scale whose square underflows, like `tiny`, is reported as `0.0` in floating point). -/
def normStd (sqrt : α → α) (scale : α) : Option α :=
  if (0 : α) < scale then some (sqrt (scale * scale)) else none

/-- `np.maximum(scale, np.finfo(float).tiny)`: the scale handed to `scipy.stats.norm` is bounded from
below by the positive constant `tiny` (the driver passes the smallest normal double). -/
def boundScale (tiny s : α) : α := if s < tiny then tiny else s

/-- `SklearnNormalRegressor.predict(X, return_std=True)` when the wrapped estimator is not fitted:
`norm(loc=_label_mean, scale=max(_label_std, tiny))` at every query point, then `rv.mean()`, `rv.std()`. -/
def normalFallbackPredict (sqrt : α → α) (tiny : α) (ys : List α) (nQuery : Nat) :
    List (Option α) × List (Option α) :=
  let m := labelMean ys
  let s := boundScale tiny (labelStd sqrt ys)
  (List.replicate nQuery (normMean m s), List.replicate nQuery (normStd sqrt s))

/-- the definition before the repair (scale not bounded): kept for the regression theorem only. -/
def normalFallbackPredictOld (sqrt : α → α) (ys : List α) (nQuery : Nat) : List (Option α) × List (Option α) :=
  let m := labelMean ys
  let s := labelStd sqrt ys
  (List.replicate nQuery (normMean m s), List.replicate nQuery (normStd sqrt s))

/-- `_sample` fallback: `y = randn(len(X), n_samples); y *= _label_std; y += _label_mean`. -/
def fallbackSample (z : List (List α)) (std mean : α) : List (List α) :=
  z.map (fun row => row.map (fun v => v * std + mean))

end Num

end Ska.Regressor
