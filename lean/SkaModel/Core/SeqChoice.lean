import SkaModel.Core.Selection

/-!
# Sequential selection by weighted draws and by shrinking lists

Two further loop shapes of pool strategies with their own batch loop.

* **Weighted draws** (`Badge`, `Falcun`): each step builds a weight vector over the candidate positions,
  sets the entries of the earlier picks to zero (falling back to uniform weights off the earlier picks when
  nothing is left), normalises it and draws one position with
  `RandomState.choice(p=…)`.  numpy's `choice` computes `cdf = cumsum(p); cdf /= cdf[-1]` and returns
  `cdf.searchsorted(u, side='right')` for one uniform draw `u`; that is `choiceIdx` below.  The weight
  vectors are strategy specific (oracles, captured from the real call); what is modelled is the draw and
  the zero-at-earlier-picks discipline.
* **Shrinking lists** (`_greedy_sampling`, used by `GreedySamplingX` and `GreedySamplingTarget`): the loop keeps
  the list of not yet selected candidates, scores exactly those, picks a position with `rand_argmax` and
  deletes it from the list.
-/

namespace Ska.Seq

section choice
variable {α : Type} [Add α] [Div α] [LT α] [DecidableLT α]

/-- `cdf.searchsorted(u, side='right')` for the running sums `acc + x₀, acc + x₀ + x₁, …` divided by `s`:
the first position whose normalised running sum exceeds `u`. -/
def searchFrom (s u : α) : α → List α → Nat
  | _, [] => 0
  | acc, x :: xs => if u < (acc + x) / s then 0 else searchFrom s u (acc + x) xs + 1

variable [OfNat α 0]

/-- `cumsum(p)[-1]` (numpy accumulates left to right) -/
def total (p : List α) : α := p.foldl (· + ·) 0

/-- the position `RandomState.choice(len(p), p=p)` returns for the uniform draw `u` -/
def choiceIdx (p : List α) (u : α) : Nat := searchFrom (total p) u 0 p

/-- the positions drawn on the successive weight vectors -/
def choicePicks (rows : List (List α)) (us : List α) : List Nat := List.zipWith choiceIdx rows us

/-- `p[j]` is not positive (zero, or out of range) -/
def notPosAt (p : List α) (j : Nat) : Bool :=
  match p[j]? with
  | some x => !decide (0 < x)
  | none => true

/-- Zero discipline: every weight vector handed to `choice` carries no mass at the earlier picks. -/
def zeroOkB : List Nat → List (List α) → List Nat → Bool
  | _, [], [] => true
  | earlier, row :: rows, p :: ps => earlier.all (notPosAt row) && zeroOkB (earlier ++ [p]) rows ps
  | _, _, _ => false

variable [OfNat α 1]

/-- what `choice` requires of its arguments: no negative weight, positive total, `0 ≤ u < 1` -/
def probOkB (p : List α) (u : α) : Bool :=
  p.all (fun x => !decide (x < 0)) && decide (0 < total p) && !decide (u < 0) && decide (u < 1)

end choice

section noReplace
variable {α : Type} [Add α] [Div α] [LT α] [DecidableLT α] [OfNat α 0]

/-- `p[found] = 0` -/
def zeroAt (found : List Nat) (p : List α) : List α :=
  p.zipIdx.map (fun xi => if found.contains xi.2 then 0 else xi.1)

/-- `np.unique(new, return_index=True)` followed by sorting the first-occurrence indices: the entries of `new` not
seen before, first occurrences, in order of appearance -/
def keepFresh : List Nat → List Nat → List Nat
  | _, [] => []
  | seen, x :: xs => if seen.contains x then keepFresh seen xs else x :: keepFresh (x :: seen) xs

/-- numpy's `RandomState.choice(n, size, replace=False, p=p)`: rounds of `size - #found` uniform draws; every round
zeroes the weights of the positions found so far, maps its draws through the normalised cumulative sums and keeps the
new distinct positions.  `uss` are the uniform draws of the successive rounds; `none` = ran out of rounds. -/
def choiceNR (p : List α) (size : Nat) : List (List α) → List Nat → Option (List Nat)
  | [], found => if size ≤ found.length then some found else none
  | us :: rest, found =>
    if size ≤ found.length then some found
    else choiceNR p size rest
      (found ++ keepFresh [] ((us.take (size - found.length)).map (choiceIdx (zeroAt found p))))

/-- positions of positive weight -/
def posIdx (p : List α) : List Nat :=
  (List.range p.length).filter (fun i => match p[i]? with | some x => decide (0 < x) | none => false)

/-- one entry of `p = utilities / np.nansum(utilities); p[np.isnan(p)] = 0` -/
def propW (s : α) : Option α → α
  | some v => v / s
  | none => 0

/-- `p = utilities / np.nansum(utilities); p[np.isnan(p)] = 0` -/
def propWeights (u : List (Option α)) (s : α) : List α := u.map (propW s)

end noReplace

section propBatch
variable {α : Type} [Add α] [Div α] [LT α] [DecidableLT α] [OfNat α 0]

/-- `simple_batch(method="proportional")` with numpy's `choice` computed by the model instead of supplied: the
selection is a function of the utilities and the uniform draws alone. -/
def simpleBatchProp (isInf : α → Bool) (u : List (Option α)) (b : Nat) (uss : List (List α)) :
    Except SelErr (List (Nat × List (Option α))) :=
  match choiceNR (propWeights u (nansum u)) (min b (countSome u)) uss [] with
  | some c => simpleBatch (β := α) isInf u b .proportional [] c
  | none => .error .oracle

end propBatch

section shrink

/-- The shrinking-list loop: `remaining` are the not yet selected candidates (in the loop's order), `pos` the
positions `rand_argmax` returned on the successive score vectors (one score per remaining candidate).  Returns
the selected candidates; `none` if a position is out of range. -/
def shrinkPicks : List Nat → List Nat → Option (List Nat)
  | _, [] => some []
  | remaining, p :: ps =>
    match remaining[p]? with
    | none => none
    | some c => (shrinkPicks (remaining.eraseIdx p) ps).map (c :: ·)

/-- every score vector has one entry per remaining candidate -/
def shrinkLenOkB {γ : Type} : Nat → List (List γ) → Bool
  | _, [] => true
  | n, row :: rows => row.length == n && shrinkLenOkB (n - 1) rows

variable {α : Type} [LT α] [DecidableLT α]
variable {β : Type} [LT β] [DecidableLT β] [OfNat β 0]

/-- the loop of `_greedy_sampling`: `rand_argmax` on the scores of the remaining candidates, then delete -/
def shrinkSeq (remaining : List Nat) (rows : List (List (Option α))) (noises : List (List β)) : Option (List Nat) :=
  shrinkPicks remaining (List.zipWith Ska.randArgmax rows noises)

end shrink

end Ska.Seq
