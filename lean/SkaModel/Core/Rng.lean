/-!
# Random draws tagged by their generator (C06) — core Lean only

A method is summarised by the list of its random draw sites in program order, each tagged with the
generator it draws from, as classified by `harness/translate` from the current source:

* `own`       — `self.random_state_` (pool: derived per call from `random_state` and the number of
                unlabeled samples by `check_random_state`; stream / budget managers: a private copy)
* `derived`   — a local generator / seed obtained from `self.random_state_` (or from the constructor
                parameter `random_state`) without touching the global generator
* `seededArg` — a third-party estimator whose `random_state` is passed explicitly from a constructor
                parameter (e.g. `cluster_algo_dict={'random_state': 0}`)
* `global`    — `np.random.*` (the process-global generator)
* `unseeded`  — a third-party estimator constructed without `random_state` (falls back to the
                process-global generator)
* `carried`   — the method's own generator is not (certainly) re-derived from the constructor
                parameter in this call (`fit` keeping a `random_state_` of an earlier call): from the
                point of view of the call its state is external, like the global generator's

Generators are streams with a cursor; the values a method computes are an arbitrary function of the
values it drew.
-/

namespace Ska.Rng

inductive Src where
  | own | derived | seededArg | global | unseeded | carried
  deriving DecidableEq, Repr

def Src.usesGlobal : Src → Bool
  | .global => true
  | .unseeded => true
  | .carried => true
  | _ => false

/-- the decidable predicate: no draw site uses a generator whose state is not determined by the
constructor parameters and the call (process-global, or carried over from earlier calls) -/
def NoGlobal (p : List Src) : Bool := p.all (fun s => !s.usesGlobal)

abbrev Stream := Nat → Nat

/-- cursors into the three generators and the values drawn so far (latest first) -/
structure Cur where
  own : Nat
  arg : Nat
  glob : Nat
  drawn : List Nat

def step (ownS argS globS : Stream) (c : Cur) : Src → Cur
  | .own => { c with own := c.own + 1, drawn := ownS c.own :: c.drawn }
  | .derived => { c with own := c.own + 1, drawn := ownS c.own :: c.drawn }
  | .seededArg => { c with arg := c.arg + 1, drawn := argS c.arg :: c.drawn }
  | .global => { c with glob := c.glob + 1, drawn := globS c.glob :: c.drawn }
  | .unseeded => { c with glob := c.glob + 1, drawn := globS c.glob :: c.drawn }
  | .carried => { c with glob := c.glob + 1, drawn := globS c.glob :: c.drawn }

def run (ownS argS globS : Stream) : List Src → Cur → Cur
  | [], c => c
  | s :: p, c => run ownS argS globS p (step ownS argS globS c s)

/-! ### `check_random_state(random_state, seed_multiplier)` as the code has it -/

/-- the constructor parameter `random_state` -/
inductive Seed where
  | none                      -- falls back to the global generator
  | int (n : Nat)
  | inst (stream : Stream) (cursor : Nat)   -- a caller-owned `RandomState`

/-- `mk seed` is numpy's `RandomState(seed)`.  With an integer or an instance the parameter is
deep-copied, one `randint` is drawn *from the copy*, multiplied with `mult` (pool: number of
unlabeled samples + 1) and used as the seed of a new generator; the global generator and the
caller's instance are not advanced.  With `None` the global generator itself is returned. -/
def ownStream (mk : Nat → Stream) (seed : Seed) (mult : Nat) (globS : Stream) (globCur : Nat) :
    Stream :=
  match seed with
  | .none => fun i => globS (globCur + i)
  | .int n => mk (((mk n) 0 * mult) % 2 ^ 31)
  | .inst st cur => mk ((st cur * mult) % 2 ^ 31)

/-! ### `check_random_state` with what the caller can observe

`ownStream` above says which values the per-call generator produces.  The caller can observe two more things: whether
the generator handed back *is* the object the caller owns (or numpy's global generator) — then every draw the method
makes advances it — and where the caller's instance stands afterwards. -/

/-- the seed the code derives: one `randint` of the copied generator times the multiplier, modulo `2^31` -/
def derivedSeed (draw mult : Nat) : Nat := (draw * mult) % 2 ^ 31

structure Crs where
  /-- the values the returned generator will produce -/
  stream : Stream
  /-- the returned generator is the caller's instance / numpy's global generator itself -/
  shared : Bool
  /-- cursor of the caller's instance after the call (instances only) -/
  callerCur : Nat

/-- `check_random_state(random_state, seed_multiplier)`: without a multiplier this is scikit-learn's function (an
instance is handed back as it is, `None` is the global generator, an integer seeds a new generator); with a
multiplier an integer or instance is deep-copied first, so the caller's object is neither returned nor advanced. -/
def checkRandomState (mk : Nat → Stream) (seed : Seed) (mult : Option Nat) (globS : Stream) (globCur : Nat) : Crs :=
  match seed, mult with
  | .none, _ => ⟨fun i => globS (globCur + i), true, 0⟩
  | .int n, none => ⟨mk n, false, 0⟩
  | .int n, some m => ⟨mk (derivedSeed ((mk n) 0) m), false, 0⟩
  | .inst st cur, none => ⟨fun i => st (cur + i), true, cur⟩
  | .inst st cur, some m => ⟨mk (derivedSeed (st cur) m), false, cur⟩

/-- `n` consecutive identical pool queries on one strategy that holds the caller's instance `st`: what survives
between the calls is the instance's cursor as `check_random_state` leaves it. -/
def repeatQueries {β : Type} (F : List Nat → β) (mk : Nat → Stream) (st : Stream) (mult : Nat)
    (argS globS : Stream) (globCur : Nat) (p : List Src) : Nat → Nat → List β
  | 0, _ => []
  | n + 1, cur =>
    let crs := checkRandomState mk (.inst st cur) (some mult) globS globCur
    F (run crs.stream argS globS p ⟨0, 0, globCur, []⟩).drawn ::
      repeatQueries F mk st mult argS globS globCur p n crs.callerCur

/-- the same loop for a validation step that hands the caller's instance itself to the method (what
`check_random_state` does *without* a multiplier): the own draws advance the instance -/
def repeatQueriesShared {β : Type} (F : List Nat → β) (st : Stream) (argS globS : Stream) (globCur : Nat)
    (p : List Src) : Nat → Nat → List β
  | 0, _ => []
  | n + 1, cur =>
    let c := run (fun i => st (cur + i)) argS globS p ⟨0, 0, globCur, []⟩
    F c.drawn :: repeatQueriesShared F st argS globS globCur p n (cur + c.own)

def Seed.given : Seed → Bool
  | .none => false
  | _ => true

/-- One pool query: derive `random_state_`, then perform the draws; the result is any function `F`
of the drawn values. -/
def poolQuery {β : Type} (F : List Nat → β) (mk : Nat → Stream) (seed : Seed) (mult : Nat)
    (argS globS : Stream) (globCur : Nat) (p : List Src) : β × Nat :=
  let c := run (ownStream mk seed mult globS globCur) argS globS p ⟨0, 0, globCur, []⟩
  (F c.drawn, c.glob)

end Ska.Rng
