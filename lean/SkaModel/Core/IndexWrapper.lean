/-!
# IndexClassifierWrapper (model of `skactiveml/pool/utils.py: IndexClassifierWrapper`)

Core Lean only (no Mathlib): executed by the driver with `Float` weights / kernel values and proved
about in `SkaModel/Props/C19.lean` for arbitrary label, weight, kernel and classifier types.

Conventions
* an index is an `Int` (numpy accepts negative indices; `check_indices` only rejects `i ≥ n`),
  `normIdx n i` is numpy's wrap-around, `none` where numpy raises `IndexError`;
* `idx_, y_, sample_weight_` are kept as three separate lists exactly as in the code,
  `sample_weight_ = None` is `sw = none`;
* the wrapped classifier is an abstract type `C` with `fitFn : Data → C` (what `clf.fit(X[idx], y, w)`
  produces, `fit` assumed history-free: C13) and `pfitFn : C → Data → C` (native `partial_fit`);
  `clf_` absent and `clf_` an unfitted clone are both `none` (no code path distinguishes them except
  by the type of the exception raised);
* every operation returns the state the object is left in **and** the exception raised, if any
  (`St × Option Err`); since the repair of `partial_fit` (compute into locals, assign after the closing
  `fit` succeeded) a raising call leaves the object as it was (`Ska.C19.step_error_atomic`).
-/

namespace Ska.IW

inductive Err where
  | value      -- ValueError from argument validation (empty / duplicate / too large index, length mismatch)
  | index      -- IndexError (index < -n, or `sample_weight_[cur_idx]` on an out-of-step state)
  | notFitted  -- NotFittedError (no (base) classifier, or no `idx_` because the classifier was fitted before `__init__`)
  | attr       -- AttributeError: `base_idx_` missing (old code only, see `Ska.C19.Regressions`)
  | mixed      -- ValueError "All `sample_weight` must be either None or given." (`_concat_sw`)
  | nan        -- ValueError: a needed kernel value was not precomputed
  | param      -- ValueError: unknown `fit_params` / `pred_params`
  deriving Repr, DecidableEq

/-- `(idx, y, sample_weight)` as passed to `clf.fit(self.X[idx], y, sample_weight)`. -/
structure Data (L W : Type) where
  idx : List Int
  y : List L
  sw : Option (List W)
  deriving Repr, DecidableEq

/-- Constructor arguments / derived flags that never change afterwards. -/
structure Cfg (L W : Type) where
  n : Nat                    -- `len(self.X)`
  y0 : List L                -- `self.y`
  sw0 : Option (List W)      -- `self.sample_weight`
  native : Bool              -- `self.use_partial_fit = hasattr(clf, "partial_fit") and not ignore_partial_fit`
  unique : Bool              -- `enforce_unique_samples`
  speed : Bool               -- `isinstance(clf, ParzenWindowClassifier) and use_speed_up`

/-- The mutable attributes. -/
structure St (C L W : Type) where
  clf : Option C                 -- `clf_` (fitted) / none
  cur : Option (Data L W)        -- `idx_, y_, sample_weight_` (absent until a non-native `fit`)
  bclf : Option C                -- `base_clf_`
  base : Option (Data L W)       -- `base_idx_, base_y_, base_sample_weight_`
  deriving Repr, DecidableEq

section Index
variable {α : Type}

/-- numpy index normalisation on an axis of length `n`; `none` = `IndexError`. -/
def normIdx (n : Nat) (i : Int) : Option Nat :=
  if 0 ≤ i then (if i.toNat < n then some i.toNat else none)
  else if -(n : Int) ≤ i then some (i + n).toNat else none

/-- `a[idx]` (integer fancy indexing); `none` = `IndexError`. -/
def gather (l : List α) : List Int → Option (List α)
  | [] => some []
  | i :: is =>
    match normIdx l.length i with
    | none => none
    | some k =>
      match l[k]?, gather l is with
      | some a, some as => some (a :: as)
      | _, _ => none

/-- `a[mask]` for a boolean mask of the same length. -/
def maskSel : List α → List Bool → List α
  | a :: as, b :: bs => if b then a :: maskSel as bs else maskSel as bs
  | _, _ => []

/-- `a[cur_idx]` where `cur_idx` is either the boolean mask `keep` (unique mode; numpy demands equal
lengths) or `np.arange(len(keep))` (then `keep` is all `True` and the result is the prefix);
`none` = `IndexError`. -/
def selKeep (unique : Bool) (keep : List Bool) (l : List α) : Option (List α) :=
  if (if unique then decide (l.length = keep.length) else decide (keep.length ≤ l.length)) then
    some (maskSel l keep)
  else none

/-- all-or-nothing map (`none` as soon as one element fails) -/
def mapOpt {β : Type} (f : α → Option β) : List α → Option (List β)
  | [] => some []
  | a :: as =>
    match f a, mapOpt f as with
    | some b, some bs => some (b :: bs)
    | _, _ => none

def nodupI : List Int → Bool
  | [] => true
  | x :: xs => !(xs.contains x) && nodupI xs

end Index

section Ops
variable {C L W : Type}

/-- `check_array(idx, dtype=int)` + `check_indices(idx, X, dim=0, unique=enforce_unique_samples)`. -/
def checkIdx (cfg : Cfg L W) (idx : List Int) : Option Err :=
  if idx.isEmpty then some .value
  else if cfg.unique && !(nodupI idx) then some .value
  else if idx.any (fun i => decide ((cfg.n : Int) ≤ i)) then some .value
  else none

/-- can `self.X[idx]` be evaluated? -/
def xIndexOk (cfg : Cfg L W) (idx : List Int) : Bool :=
  idx.all (fun i => decide (-(cfg.n : Int) ≤ i))

/-- the "check y" block: `y=None` takes the labels given to `__init__`. -/
def resolveY (cfg : Cfg L W) (idx : List Int) (y : Option (List L)) : Except Err (List L) :=
  match y with
  | none =>
    match gather cfg.y0 idx with
    | none => .error .index
    | some yy => .ok yy
  | some yy => if yy.length = idx.length then .ok yy else .error .value

/-- the "check sample_weight" block: `None` takes (a copy of) the weights given to `__init__`, which
may themselves be `None`. -/
def resolveSW (cfg : Cfg L W) (idx : List Int) (sw : Option (List W)) : Except Err (Option (List W)) :=
  match sw with
  | none =>
    match cfg.sw0 with
    | none => .ok none
    | some w0 =>
      match gather w0 idx with
      | none => .error .index
      | some ww => .ok (some ww)
  | some ww => if ww.length = idx.length then .ok (some ww) else .error .value

/-- `IndexClassifierWrapper.fit(idx, y, sample_weight, set_base_clf)`. -/
def fit (cfg : Cfg L W) (fitFn : Data L W → C) (s : St C L W)
    (idx : List Int) (y : Option (List L)) (sw : Option (List W)) (setBase : Bool) :
    St C L W × Option Err :=
  match checkIdx cfg idx with
  | some e => (s, some e)
  | none =>
    match resolveY cfg idx y with
    | .error e => (s, some e)
    | .ok yy =>
      match resolveSW cfg idx sw with
      | .error e => (s, some e)
      | .ok ww =>
        if !(xIndexOk cfg idx) then (s, some .index)      -- `self.X[idx]`
        else
          let d : Data L W := ⟨idx, yy, ww⟩
          let c := fitFn d                                   -- `self.clf_.fit(self.X[idx], y, sample_weight)`
          let cur' := if cfg.native then s.cur else some d
          if setBase then
            (⟨some c, cur', some c, if cfg.native then s.base else cur'⟩, none)
          else
            (⟨some c, cur', s.bclf, s.base⟩, none)

/-- the mask `[i not in add_idx for i in self.idx_]` (all `True` without `enforce_unique_samples`). -/
def keepMask (unique : Bool) (cur add : List Int) : List Bool :=
  cur.map (fun i => !(unique && add.contains i))

/-- The concatenation block of the emulated `partial_fit`, computed into locals
(`new_idx = concat(idx_[cur_idx], add_idx)`, the same for `y`, then `_concat_sw`); nothing is assigned
here, an exception leaves the object untouched. -/
def merge (unique : Bool) (d : Data L W) (idx : List Int) (ay : List L) (aw : Option (List W)) :
    Except Err (Data L W) :=
  let keep := keepMask unique d.idx idx
  let idx' := maskSel d.idx keep ++ idx
  match selKeep unique keep d.y with
  | none => .error .index
  | some ky =>
    let y' := ky ++ ay
    match d.sw with
    | none =>
      match aw with
      | none => .ok ⟨idx', y', none⟩
      | some _ => .error .mixed          -- `_concat_sw` raises
    | some w =>
      match selKeep unique keep w with
      | none => .error .index
      | some kw =>
        match aw with
        | some a => .ok ⟨idx', y', some (kw ++ a)⟩
        | none => .error .mixed

/-- native branch of `partial_fit` (arguments already validated): `X[add_idx]` is evaluated and the
classifier to update is chosen (a deep copy of the base classifier with `use_base_clf`) before anything
is assigned. -/
def partialNative (cfg : Cfg L W) (pfitFn : C → Data L W → C) (s : St C L W)
    (idx : List Int) (ay : List L) (aw : Option (List W)) (useBase setBase : Bool) :
    St C L W × Option Err :=
  if !(xIndexOk cfg idx) then (s, some .index)     -- `X_add = self.X[add_idx]`
  else
    match (if useBase then s.bclf else s.clf) with
    | none => (s, some .notFitted)
    | some c =>
      let c' := pfitFn c ⟨idx, ay, aw⟩
      if setBase then (⟨some c', s.cur, some c', s.base⟩, none)
      else (⟨some c', s.cur, s.bclf, s.base⟩, none)

/-- emulated branch of `partial_fit` (arguments already validated): the new training record is computed
into locals; `clf_` is replaced by a clone of the base classifier only around the closing `fit` and put
back if that raises; `idx_`, `y_`, `sample_weight_` are assigned by `fit` once it has succeeded. -/
def partialEmu (cfg : Cfg L W) (fitFn : Data L W → C) (s : St C L W)
    (idx : List Int) (ay : List L) (aw : Option (List W)) (useBase setBase : Bool) :
    St C L W × Option Err :=
  match s.cur with
  | none => (s, some .notFitted)              -- `not hasattr(self, "idx_")`
  | some cur0 =>
    match (if useBase then s.base else some cur0) with
    | none => (s, some .notFitted)            -- base classifier from `__init__`: `base_idx_` unknown
    | some d =>
      match merge cfg.unique d idx ay aw with
      | .error e => (s, some e)
      | .ok d' =>
        -- `old_clf = self.clf_; if use_base_clf: self.clf_ = clone(self.base_clf_)`
        -- `try: self.fit(new_idx, y=new_y, sample_weight=new_sample_weight, set_base_clf=…)`
        -- `except: self.clf_ = old_clf; raise`
        let r := fit cfg fitFn ⟨if useBase then none else s.clf, s.cur, s.bclf, s.base⟩ d'.idx (some d'.y) d'.sw setBase
        match r.2 with
        | some e => (s, some e)
        | none => r

/-- the validation part of `partial_fit` (nothing is assigned before it is over). -/
def validatePartial (cfg : Cfg L W) (s : St C L W) (idx : List Int) (y : Option (List L))
    (sw : Option (List W)) (useBase : Bool) : Except Err (List L × Option (List W)) :=
  match checkIdx cfg idx with
  | some e => .error e
  | none =>
    if (if useBase then s.bclf.isNone else s.clf.isNone) then .error .notFitted
    else
      match resolveY cfg idx y with
      | .error e => .error e
      | .ok ay =>
        match resolveSW cfg idx sw with
        | .error e => .error e
        | .ok aw => .ok (ay, aw)

/-- `IndexClassifierWrapper.partial_fit(idx, y, sample_weight, use_base_clf, set_base_clf)`. -/
def partialFit (cfg : Cfg L W) (fitFn : Data L W → C) (pfitFn : C → Data L W → C) (s : St C L W)
    (idx : List Int) (y : Option (List L)) (sw : Option (List W)) (useBase setBase : Bool) :
    St C L W × Option Err :=
  match validatePartial cfg s idx y sw useBase with
  | .error e => (s, some e)
  | .ok (ay, aw) =>
    if cfg.native then partialNative cfg pfitFn s idx ay aw useBase setBase
    else partialEmu cfg fitFn s idx ay aw useBase setBase

/-- `__init__`: `prefitted = some c` when the classifier handed in already has `classes_`. For a
`ParzenWindowClassifier` with `use_speed_up` the constructor replaces `clf_` by an unfitted
`metric="precomputed"` clone afterwards. -/
def init (cfg : Cfg L W) (prefitted : Option C) (setBase : Bool) : Except Err (St C L W) :=
  match prefitted with
  | some c =>
    .ok ⟨if cfg.speed then none else some c, none, if setBase then some c else none, none⟩
  | none => if setBase then .error .notFitted else .ok ⟨none, none, none, none⟩

/-- One call on the wrapper. -/
inductive Op (L W : Type) where
  | fit (idx : List Int) (y : Option (List L)) (sw : Option (List W)) (setBase : Bool)
  | pfit (idx : List Int) (y : Option (List L)) (sw : Option (List W)) (useBase setBase : Bool)
  deriving Repr

def step (cfg : Cfg L W) (fitFn : Data L W → C) (pfitFn : C → Data L W → C) (s : St C L W) :
    Op L W → St C L W × Option Err
  | .fit idx y sw sb => fit cfg fitFn s idx y sw sb
  | .pfit idx y sw ub sb => partialFit cfg fitFn pfitFn s idx y sw ub sb

/-- State after a whole call sequence (exceptions are caught by the caller and the run goes on). -/
def run (cfg : Cfg L W) (fitFn : Data L W → C) (pfitFn : C → Data L W → C) (s : St C L W) :
    List (Op L W) → St C L W
  | [] => s
  | op :: ops => run cfg fitFn pfitFn (step cfg fitFn pfitFn s op).1 ops

/-- The free classifier: it *is* the sequence of native calls it received. -/
structure Hist (L W : Type) where
  first : Data L W
  rest : List (Data L W)
  deriving Repr, DecidableEq

def Hist.fit (d : Data L W) : Hist L W := ⟨d, []⟩
def Hist.pfit (h : Hist L W) (d : Data L W) : Hist L W := ⟨h.first, h.rest ++ [d]⟩

/-- A fresh copy of the wrapped classifier put through the recorded calls. -/
def Hist.replay (fitFn : Data L W → C) (pfitFn : C → Data L W → C) (h : Hist L W) : C :=
  h.rest.foldl pfitFn (fitFn h.first)

end Ops

/-! ## The precomputed kernel table (`pwc_K_`) -/

section Table
variable {L W κ : Type}

/-- `pwc_K_` as a partial table; `none` = NaN (not yet computed). -/
abbrev Tab (κ : Type) := Nat → Nat → Option κ

def Tab.empty : Tab κ := fun _ _ => none

/-- `idx[is_labeled(self.y[idx])]` / `is_unlabeled` / all, for `fit_params` / `pred_params`
(0 = "all", 1 = "labeled", 2 = "unlabeled", anything else is rejected). `self.y[idx]` is only
evaluated for 1 and 2 (`IndexError` for an index below `-n`). -/
def filterParam (cfg : Cfg L W) (isMissing : L → Bool) (p : Nat) (idx : List Int) :
    Except Err (List Int) :=
  if p = 0 then .ok idx
  else if p = 1 ∨ p = 2 then
    match gather cfg.y0 idx with
    | none => .error .index
    | some ys =>
      .ok (((List.zip idx ys).filter (fun t => if p = 1 then !(isMissing t.2) else isMissing t.2)).map Prod.fst)
  else .error .param

/-- `check_array` + `check_indices(idx, X, dim=0)` in `precompute` (default `unique=True`: no error). -/
def checkIdxPre (cfg : Cfg L W) (idx : List Int) : Option Err :=
  if idx.isEmpty then some .value
  else if idx.any (fun i => decide ((cfg.n : Int) ≤ i)) then some .value
  else none

/-- `precompute(idx_fit, idx_pred, fit_params, pred_params)`; `k i j` is the kernel value
`pairwise_kernels(X[[i]], X[[j]])`. Without the Parzen-window speed-up only the arguments are
validated. -/
def precompute (cfg : Cfg L W) (isMissing : L → Bool) (k : Nat → Nat → κ) (pre : Tab κ)
    (idxFit idxPred : List Int) (fp pp : Nat) : Tab κ × Option Err :=
  match checkIdxPre cfg idxFit with
  | some e => (pre, some e)
  | none =>
    match checkIdxPre cfg idxPred with
    | some e => (pre, some e)
    | none =>
      if !cfg.speed then (pre, none)
      else
        match filterParam cfg isMissing fp idxFit with
        | .error e => (pre, some e)
        | .ok a =>
          match filterParam cfg isMissing pp idxPred with
          | .error e => (pre, some e)
          | .ok b =>
            if a.isEmpty || b.isEmpty then (pre, none)
            else
              -- `self.pwc_K_[np.ix_(a, b)] = pairwise_kernels(self.X[a], self.X[b], …)`
              match mapOpt (normIdx cfg.n) a, mapOpt (normIdx cfg.n) b with
              | some an, some bn =>
                ((fun i j => if an.contains i && bn.contains j then some (k i j) else pre i j), none)
              | _, _ => (pre, some .index)

/-- One row of `P = pwc_K_[idx_, :][:, idx].T`: the kernel values between the query `j` and the
training indices; `none` where an entry is NaN. -/
def tableRow (pre : Tab κ) (train : List Nat) (j : Nat) : Option (List κ) :=
  mapOpt (fun i => pre i j) train

/-- `P`, then the NaN check. -/
def tableRows (cfg : Cfg L W) (pre : Tab κ) (train : List Int) (q : List Int) :
    Except Err (List (List κ)) :=
  match mapOpt (normIdx cfg.n) train, mapOpt (normIdx cfg.n) q with
  | some tr, some qs =>
    match mapOpt (tableRow pre tr) qs with
    | some rows => .ok rows
    | none => .error .nan
  | _, _ => .error .index

/-- The kernel rows a classifier with the original metric computes itself:
`pairwise_kernels(X[idx], X_)`. -/
def directRows (k : Nat → Nat → κ) (train q : List Nat) : List (List κ) :=
  q.map (fun j => train.map (fun i => k j i))

/-- which of `predict`, `predict_proba`, `predict_freq` -/
inductive Kind where
  | label | proba | freq
  deriving Repr, DecidableEq

/-- What a `predict*` call on the wrapper evaluates. -/
inductive Plan (κ : Type) where
  | table (kind : Kind) (rows : List (List κ))   -- `self.clf_.<kind>(P)` on the precomputed clone
  | direct (kind : Kind) (q : List Nat)          -- `self.clf_.<kind>(self.X[idx])`
  | orig (kind : Kind) (q : List Nat)            -- `self.clf.<kind>(self.X[idx])` (the object handed to `__init__`)
  deriving Repr, DecidableEq

/-- `predict` / `predict_proba` / `predict_freq`.  `origFitted`: was the classifier handed to
`__init__` already fitted.  In the speed-up branch without `idx_` the object handed to `__init__`
answers with the same method (`self.clf.<kind>(self.X[idx])`; repaired in /repo commit 1805c2fd —
before, all three methods returned `self.clf.predict_proba(...)`, see `Ska.C19.Regressions`). -/
def predictPlan {C : Type} (cfg : Cfg L W) (origFitted : Bool) (s : St C L W) (pre : Tab κ)
    (kind : Kind) (q : List Int) : Except Err (Plan κ) :=
  if cfg.speed then
    match s.cur with
    | some d =>
      match tableRows cfg pre d.idx q with
      | .error e => .error e
      | .ok rows => if s.clf.isNone then .error .notFitted else .ok (.table kind rows)
    | none =>
      match mapOpt (normIdx cfg.n) q with
      | none => .error .index
      | some qs => if origFitted then .ok (.orig kind qs) else .error .notFitted
  else
    match mapOpt (normIdx cfg.n) q with
    | none => .error .index
    | some qs => if s.clf.isNone then .error .notFitted else .ok (.direct kind qs)

end Table

/-! ## Parzen window frequencies from a kernel row (`F = K @ V_`) -/

section Freq
variable {L κ : Type} [Add κ] [Mul κ] [OfNat κ 0] [OfNat κ 1]

/-- `Σ_i K[i] · V[i, c]` with `V[i, c] = w_i` if `y_i = c` else `0`; missing weights count `1`. -/
def freqRow (eqL : L → L → Bool) (row : List κ) (y : List L) (sw : Option (List κ)) (c : L) : κ :=
  let ws : List κ := match sw with | none => y.map (fun _ => (1 : κ)) | some w => w
  (List.zip row (List.zip y ws)).foldl (fun acc t => if eqL t.2.1 c then acc + t.1 * t.2.2 else acc) (0 : κ)

def freqRows (eqL : L → L → Bool) (rows : List (List κ)) (y : List L) (sw : Option (List κ))
    (classes : List L) : List (List κ) :=
  rows.map (fun r => classes.map (freqRow eqL r y sw))

end Freq

end Ska.IW
