import SkaModel.Core.Pool

/-!
# Skeleton facts extracted from the source of a `query` method (second tie for C01/C02)

A `Skel` value is produced by `harness/translate/skeleton.py` from the AST of the current source.  It says
how the method ends.  `Skel.wellFormed` is the decidable side condition under which the tail of the method
*is* the modelled Skeleton A; `Skel.denote` is its meaning.
-/

namespace Ska.Skeleton
open Ska

structure Skel where
  cls : String
  file : String
  /-- last statement is `return simple_batch(<u>, self.random_state_, batch_size=batch_size, return_utilities=return_utilities, …)` -/
  retSimpleBatch : Bool
  /-- the `method=` keyword: "max" (also when absent), "proportional", "other" -/
  method : String
  /-- `if mapping is None: <u> = <expr>` -/
  noneBranchDirect : Bool
  /-- `else: <u> = np.full(len(X), np.nan)` -/
  fullNaN : Bool
  /-- `<u>[mapping] = <expr>` is the write in the else branch -/
  writeAtMapping : Bool
  /-- statements between the `if` and the `return` ("mul_utility_weight" is the only harmless one) -/
  post : List String
  /-- other subscript stores / augmented assignments into `<u>` elsewhere in the method -/
  otherStores : Nat
  deriving Repr

def Skel.methodOf (s : Skel) : Option Method :=
  if s.method = "max" then some .max else if s.method = "proportional" then some .proportional else none

def Skel.wellFormed (s : Skel) : Bool :=
  s.retSimpleBatch && s.methodOf.isSome && s.noneBranchDirect && s.fullNaN && s.writeAtMapping &&
    s.post.all (· == "mul_utility_weight") && s.otherStores == 0

section
variable {α : Type} [LT α] [DecidableLT α] [OfNat α 0] [Add α]
variable {β : Type} [LT β] [DecidableLT β] [OfNat β 0]

/-- Meaning of the tail of a `query` method with skeleton `s`: given the value `utilCand` of the
expression written through `mapping` (after the optional multiplication by `utility_weight`), the
method returns what `simple_batch` returns on the scattered vector.  Undefined for skeletons that are
not well formed (the translator does not understand them; such classes are judged on outputs only). -/
def Skel.denote (s : Skel) (isInf : α → Bool) (n : Nat) (mapping : Option (List Nat))
    (utilCand : List (Option α)) (b : Nat) (noises : List (List β)) (choice : List Nat) :
    Option (Except SelErr (List (Nat × List (Option α)))) :=
  if s.wellFormed then
    match s.methodOf with
    | some m => some (poolQueryA isInf n mapping utilCand b m noises choice)
    | none => none
  else none

end

end Ska.Skeleton
