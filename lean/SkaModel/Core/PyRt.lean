import SkaModel.Core.Budget

/-!
# Run-time vocabulary of the generated stream models (`Gen/StreamBM.lean`)

The translator `harness/translate/pystream.py` turns the Python methods of the budget managers into Lean
definitions over the objects declared here.  An object is the record of the attributes the methods read and
write (constructor parameters and fitted attributes alike; `rng` is the cursor of `random_state_` into the
explicit draw streams).  Core Lean only.
-/

namespace Ska.PyRt
open Ska.Budget

/-- The Žliobaitė family (`_estimated_budget_zliobaite.py`): `w`, `budget_`, `s`, `v`, `delta`, `theta`
(parameters), `nclasses = len(classes)`, `u_t_`, `theta_`, cursor of `random_state_`. -/
structure ZObj (α : Type) where
  w : α
  budget_ : α
  s : α
  v : α
  delta : α
  theta : α
  nclasses : α
  u_t_ : α
  theta_ : α
  rng : Nat

/-- `DensityBasedSplitBudgetManager` -/
structure DObj (α : Type) where
  budget_ : α
  s : α
  delta : α
  theta : α
  u_ : Nat
  t_ : Nat
  theta_ : α
  rng : Nat

/-- `StreamRandomSampling`, `PeriodicSampling` -/
structure CObj (α : Type) where
  budget_ : α
  allow_exceeding_budget : Bool
  observed_samples_ : Nat
  queried_samples_ : Nat
  rng : Nat

/-- `BalancedIncrementalQuantileFilter` -/
structure QObj (α : Type) where
  w : Nat
  w_tol : α
  budget_ : α
  observed_samples_ : Nat
  queried_samples_ : Nat
  history_sorted_ : List (Option α)

section
variable {α : Type} [OfNat α 0] [OfNat α 1]

/-- a Python `bool` used as a number in float arithmetic -/
def b2f (b : Bool) : α := if b then 1 else 0

end

/-- a Python `bool` added to an integer counter -/
def b2n (b : Bool) : Nat := if b then 1 else 0

/-- `xs[-1]` of a non-empty list of Booleans -/
def lastB (xs : List Bool) : Bool := xs.getLast?.getD false

section
variable {α : Type} [Sub α] [Mul α] [Div α] [LT α] [DecidableLT α]

/-- numpy `a <= b` when either side may be NaN -/
def leOO (a b : Option α) : Bool :=
  match a, b with
  | some x, some y => leB x y
  | _, _ => false

/-- `a - b` with NaN propagation -/
def subO (a b : Option α) : Option α :=
  match a, b with
  | some x, some y => some (x - y)
  | _, _ => none

/-- `a * b` with NaN propagation -/
def mulO (a b : Option α) : Option α :=
  match a, b with
  | some x, some y => some (x * y)
  | _, _ => none

/-- `np.min` of a window (NaN if it holds a NaN) -/
def minO (h : List (Option α)) : Option α :=
  match allSome h with
  | some (v :: vs) => some (minL v vs)
  | _ => none

/-- `np.max` of a window (NaN if it holds a NaN) -/
def maxO (h : List (Option α)) : Option α :=
  match allSome h with
  | some (v :: vs) => some (maxL v vs)
  | _ => none

end

end Ska.PyRt
