import SkaModel.Core.Selection

/-!
# Sequential masked arg-max selection (the loop shape of the strategies with their own batch loops)

CoreSet, ProbCover, Clue, DropQuery, DiscriminativeAL, FourDs, TypiClust, GreedySampling*,
RegressionTreeBasedAL build a batch by repeating: compute a utilities row, set the entries of the
samples picked so far to NaN, pick with `rand_argmax`.  The rows themselves are strategy specific
(oracles); what is modelled is the selection discipline.
-/

namespace Ska.Seq
open Ska

variable {α : Type} [LT α] [DecidableLT α]
variable {β : Type} [LT β] [DecidableLT β] [OfNat β 0]

/-- the picks `rand_argmax` makes on the successive rows -/
def seqPicks (rows : List (List (Option α))) (noises : List (List β)) : List Nat :=
  List.zipWith randArgmax rows noises

/-- entry `j` of a row is NaN (or out of range) -/
def isNaNAt (row : List (Option α)) (j : Nat) : Bool := (row.getD j none).isNone

/-- Mask discipline: every row handed to `rand_argmax` is NaN at all earlier picks. -/
def maskOkB : List Nat → List (List (Option α)) → List Nat → Bool
  | _, [], [] => true
  | earlier, row :: rows, p :: ps => earlier.all (isNaNAt row) && maskOkB (earlier ++ [p]) rows ps
  | _, _, _ => false

/-- every row is NaN outside the candidate set `cand` (an index list of the row's space) -/
def nanOutsideB (cand : List Nat) (row : List (Option α)) : Bool :=
  (List.range row.length).all (fun j => cand.contains j || isNaNAt row j)

end Ska.Seq
