import SkaModel.Core.Selection

/-! Run-time vocabulary of the generated selection model (`Gen/SelectionGen.lean`). Core Lean only. -/

namespace Ska.PySel

variable {β : Type} [OfNat β 0]

/-- numpy `noise * mask` for a float vector and a Boolean vector of the same shape (`x * True = x`, `x * False = 0`,
exact in IEEE arithmetic for the finite non-negative draws of `random_state.random`); a missing noise entry counts as `0`. -/
def vmulB : List β → List Bool → List β
  | _, [] => []
  | [], _ :: ms => (0 : β) :: vmulB [] ms
  | n :: ns, m :: ms => (if m then n else 0) :: vmulB ns ms

end Ska.PySel
