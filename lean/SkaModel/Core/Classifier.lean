import SkaModel.Core.Selection

/-!
# Classifier output logic (model of `skactiveml/base.py` `SkactivemlClassifier`,
`ClassFrequencyEstimator`, `classifier/_wrapper.py`, `classifier/_parzen_window_classifier.py`,
`classifier/_mixture_model_classifier.py`, `classifier/multiannotator/*.py`)

Core Lean only.  Every number-valued definition is generic in the carrier `α`: the driver runs it at
`Float`, `SkaModel/Props/C11.lean` reasons about it over a linear ordered field.

Conventions
* a probability / frequency matrix is a list of rows (`List (List α)`), `k` is `len(classes_)`;
* kernel matrices, estimator outputs, responsibilities, `exp` values and random draws are explicit
  arguments (oracles captured from the real run);
* a matrix returned by a wrapped estimator is `List (List (Option α))`, `none` = NaN;
* class labels are an arbitrary type `γ` (sorted list `classes_`), class *indices* are `Nat`.
-/

namespace Ska.Classifier

section Num
variable {α : Type} [Add α] [Mul α] [Div α] [LT α] [DecidableLT α] [OfNat α 0] [OfNat α 1]

/-- left-to-right sum starting from `0` (numpy's loop for short rows; exact on dyadic inputs). -/
def sumFrom (acc : α) : List α → α
  | [] => acc
  | x :: xs => sumFrom (acc + x) xs

/-- `np.sum` of a flat list. -/
def sumL (l : List α) : α := sumFrom 0 l

/-- `float(n)` for a count `n`. -/
def natTo : Nat → α
  | 0 => 0
  | n+1 => natTo n + 1

/-- `a @ B` for one row `a` and a matrix `B` with `cols` columns:
entry `c` is `Σ_j a[j] * B[j][c]`. -/
def rowMul (cols : Nat) (a : List α) (B : List (List α)) : List α :=
  (List.range cols).map (fun c => sumL (List.zipWith (fun x row => x * row.getD c 0) a B))

/-- `A @ B` (row-major lists, `B` has `cols` columns). -/
def matMul (cols : Nat) (A B : List (List α)) : List (List α) := A.map (fun a => rowMul cols a B)

/-- `R.T` for a matrix with `m` columns. -/
def transposeM (m : Nat) (R : List (List α)) : List (List α) :=
  (List.range m).map (fun j => R.map (fun r => r.getD j 0))

/-! ## `ClassFrequencyEstimator.predict_proba` -/

inductive ClfErr where
  | prior        -- `check_class_prior` rejects (negative entry / wrong length)
  | shape        -- numpy cannot broadcast the assignment `P_ext[:, class_indices] = P`
  deriving Repr, DecidableEq

/-- `class_prior` parameter: a scalar or an array. -/
inductive PriorSpec (α : Type) where
  | scalar (c : α)
  | array (l : List α)

def isNegB (x : α) : Bool := decide (x < (0 : α))

/-- `check_class_prior(class_prior, n_classes)`: scalar ↦ `[c] * k` (must be `≥ 0`), array ↦ itself
(shape `(k,)`, no negative entry). -/
def classPrior (k : Nat) : PriorSpec α → Except ClfErr (List α)
  | .scalar c => if c < (0 : α) then .error .prior else .ok (List.replicate k c)
  | .array l => if l.length ≠ k || l.any isNegB then .error .prior else .ok l

/-- `F[i] + class_prior_`. -/
def addRow (r p : List α) : List α := List.zipWith (· + ·) r p

/-- `[1 / len(classes_)] * len(classes_)`. -/
def uniformRow (k : Nat) : List α := List.replicate k ((1 : α) / natTo k)

def divBy (s : α) (x : α) : α := x / s

/-- One row of
```
normalizer = np.sum(P, axis=1)
P[normalizer > 0] /= normalizer[normalizer > 0, np.newaxis]
P[normalizer == 0, :] = [1 / len(self.classes_)] * len(self.classes_)
```
(a negative normalizer matches neither mask: the row stays as it is). -/
def normalizeRow (k : Nat) (row : List α) : List α :=
  let s := sumL row
  if (0 : α) < s then row.map (divBy s)
  else if s < (0 : α) then row
  else uniformRow k

/-- `ClassFrequencyEstimator.predict_proba`: `normalize(predict_freq(X) + class_prior_)`. -/
def normalizeFreq (k : Nat) (F : List (List α)) (prior : List α) : List (List α) :=
  F.map (fun r => normalizeRow k (addRow r prior))

/-! ## Frequencies of the kernel / mixture classifiers (`K`, `S`, `R` are oracles) -/

/-- `ParzenWindowClassifier.predict_freq`, branch `n_neighbors is None or len(X_) <= n_neighbors`:
`F = K @ V_`. -/
def pwcFreq (k : Nat) (K V : List (List α)) : List (List α) := matMul k K V

/-- The `n_neighbors` branch: `F[i] = K[i, indices[i]] @ V_[indices[i], :]` with
`indices = np.argpartition(K, -n_neighbors, axis=1)[:, -n_neighbors:]` (captured). -/
def pwcFreqNeighbors (k : Nat) (K V : List (List α)) (indices : List (List Nat)) : List (List α) :=
  List.zipWith (fun krow idx =>
    rowMul k (idx.map (fun j => krow.getD j 0)) (idx.map (fun j => V.getD j []))) K indices

/-- `MixtureModelClassifier`: `F_components_ = R.T @ V` at fit; at predict
`S @ F_components_ if np.sum(F_components_) > 0 else zeros`. `m` = number of components. -/
def mmcComponents (k m : Nat) (R V : List (List α)) : List (List α) := matMul k (transposeM m R) V

def mmcFreq (k : Nat) (S Fc : List (List α)) : List (List α) :=
  if (0 : α) < sumL (Fc.map sumL) then matMul k S Fc
  else S.map (fun _ => List.replicate k (0 : α))

/-- `P = E / E.sum(axis=1)` — a softmax given its (positive) exponentials `E`; also the
normalisation `P /= P.sum(axis=1)` of `AnnotatorEnsembleClassifier` (no guard for a zero sum). -/
def divRow (row : List α) : List α := row.map (divBy (sumL row))

/-! ## `AnnotatorEnsembleClassifier.predict_proba` -/

/-- vote counts of one sample: `compute_vote_vectors(y=y_pred, classes=classes_)` with unit weights;
`preds` are the class indices predicted by the member classifiers. -/
def voteCounts (k : Nat) (preds : List Nat) : List α :=
  (List.range k).map (fun c => natTo ((preds.filter (· == c)).length))

/-- `voting="hard"`: `V / V.sum(axis=1)`. -/
def ensembleHard (k : Nat) (preds : List (List Nat)) : List (List α) :=
  preds.map (fun p => divRow (voteCounts k p))

/-- entrywise sum of the members' rows for one sample, accumulated member by member
(`np.sum(P, axis=0)`). -/
def addRowsFrom (acc : List α) : List (List α) → List α
  | [] => acc
  | r :: rs => addRowsFrom (addRow acc r) rs

def addRows (k : Nat) (rows : List (List α)) : List α := addRowsFrom (List.replicate k (0 : α)) rows

/-- `voting="soft"`: `P = Σ_e P_e; P /= P.sum(axis=1)`; the argument lists, per sample, the rows of the
member classifiers. -/
def ensembleSoft (k : Nat) (Ps : List (List (List α))) : List (List α) :=
  Ps.map (fun rows => divRow (addRows k rows))

end Num

/-! ## Cost-sensitive decision (`SkactivemlClassifier.predict`) -/

section Decision
variable {α : Type} [Add α] [Mul α] [LT α] [DecidableLT α] [OfNat α 0] [OfNat α 1]
variable {β : Type} [LT β] [DecidableLT β] [OfNat β 0]

/-- `1 - np.eye(k)`. -/
def zeroOne (k : Nat) : List (List α) :=
  (List.range k).map (fun i => (List.range k).map (fun j => if i = j then (0 : α) else 1))

/-- `np.dot(P, cost_matrix_)`. -/
def expectedCosts (k : Nat) (P C : List (List α)) : List (List α) := matMul k P C

/-- `rand_argmin(np.dot(P, cost_matrix_), random_state_, axis=1)`; `noise = random_state_.random(costs.shape)`. -/
def predictIdx (k : Nat) (P C : List (List α)) (noise : List (List β)) : List Nat :=
  randArgminRows ((expectedCosts k P C).map (fun r => r.map some)) noise

/-- `self._le.inverse_transform(idx)`: position ↦ class label. -/
def decode {γ : Type} (classes : List γ) (idx : List Nat) : List (Option γ) := idx.map (fun i => classes[i]?)

/-- `SkactivemlClassifier.predict`. -/
def predictDecision {γ : Type} (classes : List γ) (P C : List (List α)) (noise : List (List β)) :
    List (Option γ) :=
  decode classes (predictIdx classes.length P C noise)

end Decision

/-! ## `SklearnClassifier.predict_proba` / `predict` -/

section Sklearn
variable {γ : Type} [LT γ] [DecidableLT γ] [BEq γ]

/-- `np.searchsorted(classes_, x)` (left) on a sorted array: number of entries `< x`. -/
def isLtB (x : γ) (c : γ) : Bool := decide (c < x)
def searchsorted (cls : List γ) (x : γ) : Nat := (cls.filter (isLtB x)).length

/-- `indices_est = np.where(np.isin(est_classes, classes_))[0];
class_indices = np.searchsorted(classes_, est_classes[indices_est])`. -/
def classIndices (cls est : List γ) : List Nat := (est.filter (fun c => cls.contains c)).map (searchsorted cls)

/-- `np.argsort(classes)` for pairwise distinct class labels: position `p` holds the index of the
label with exactly `p` smaller labels. -/
def rankIs (cls : List γ) (p : Nat) (x : γ) : Bool := searchsorted cls x == p
def argsortL (cls : List γ) : List Nat := (List.range cls.length).map (fun p => cls.findIdx (rankIs cls p))

end Sklearn

section CostPerm
variable {γ : Type} [LT γ] [DecidableLT γ] {α : Type} [OfNat α 0]

/-- `SkactivemlClassifier._validate_data`: the user's cost matrix (rows / columns in the order of the
`classes` parameter) is brought into the order of the sorted `classes_`:
`class_indices = np.argsort(classes); cost_matrix_ = cost_matrix[class_indices][:, class_indices]`. -/
def permuteCost (cls : List γ) (C : List (List α)) : List (List α) :=
  let idx := argsortL cls
  idx.map (fun a => idx.map (fun b => (C.getD a []).getD b 0))

end CostPerm

section SklearnNum
variable {α : Type} [Add α] [Mul α] [Div α] [LT α] [DecidableLT α] [OfNat α 0] [OfNat α 1]

/-- `row[ci[j]] = vals[j]` for all `j` (numpy fancy-index assignment, later entries win). -/
def scatterCols {δ : Type} (row : List δ) : List Nat → List δ → List δ
  | i :: is, v :: vs => scatterCols (row.set i v) is vs
  | _, _ => row

/-- One row of
```
P_ext = np.zeros((len(X), len(classes_)))
P_ext[:, class_indices] = 1 if len(class_indices) == 1 else P
```
`p` is the estimator's row.  numpy broadcasts a one-column `P`; any other width mismatch raises. -/
def remapRow (k : Nat) (ci : List Nat) (p : List (Option α)) : Except ClfErr (List (Option α)) :=
  let zeros : List (Option α) := List.replicate k (some (0 : α))
  if ci.length = 1 then .ok (scatterCols zeros ci [some (1 : α)])
  else if p.length = ci.length then .ok (scatterCols zeros ci p)
  else if p.length = 1 then .ok (scatterCols zeros ci (List.replicate ci.length (p.getD 0 none)))
  else .error .shape

/-- all rows without NaN ↦ the plain matrix. -/
def allNumbers (P : List (List (Option α))) : Option (List (List α)) := P.mapM (fun r => r.mapM id)

/-- the fallback of `SklearnClassifier.predict_proba`:
uniform if `sum(_label_counts) == 0`, else `tile(_label_counts / sum(_label_counts), [n, 1])`. -/
def labelCountProba (k n : Nat) (counts : List α) : List (List α) :=
  let s := sumL counts
  if (0 : α) < s || s < (0 : α) then List.replicate n (counts.map (divBy s))
  else List.replicate n (uniformRow k)

/-- `SklearnClassifier.predict_proba` for `n` query points.
`fitted` = `is_fitted_`, `estP` = `estimator_.predict_proba(X)`, `ci` = `class_indices`,
`counts` = `_label_counts`. -/
def sklearnPredictProba (k n : Nat) (fitted : Bool) (estP : List (List (Option α))) (ci : List Nat)
    (counts : List α) : Except ClfErr (List (List α)) :=
  if fitted then
    let width := match estP with | [] => k | r :: _ => r.length
    match (if width ≠ k then estP.mapM (remapRow k ci) else .ok estP) with
    | .error e => .error e
    | .ok P =>
      match allNumbers P with
      | some Q => .ok Q
      | none => .ok (labelCountProba k n counts)
  else .ok (labelCountProba k n counts)

end SklearnNum

section SklearnPredict
variable {α : Type} [Add α] [Mul α] [LT α] [DecidableLT α] [OfNat α 0] [OfNat α 1]
variable {β : Type} [LT β] [DecidableLT β] [OfNat β 0]

/-- `SklearnClassifier.predict`, three branches:
* fitted, no cost matrix: the wrapped estimator's own `predict` (labels `estPred`);
* fitted, cost matrix: `rand_argmin(P @ cost_matrix_)` decoded through the label encoder;
* not fitted: the same decision on the fallback probabilities `P = predict_proba(X)` (label-count
  distribution / uniform), with or without a user cost matrix (`cost_matrix_` is `1 - eye` by default). -/
def sklearnPredict {γ : Type} (classes : List γ) (fitted hasCost : Bool) (estPred : List γ)
    (P C : List (List α)) (noise : List (List β)) : List (Option γ) :=
  if fitted && !hasCost then estPred.map some
  else predictDecision classes P C noise

/-- the definition before commit b88b57ad (kept for the regression theorem only): the unfitted branch
*sampled* `random_state_.choice(arange(k), n, p=p)` (result `choice`, an oracle) and decoded it. -/
def sklearnPredictOld {γ : Type} (classes : List γ) (fitted hasCost : Bool) (estPred : List γ)
    (P C : List (List α)) (noise : List (List β)) (choice : List Nat) : List (Option γ) :=
  if fitted then
    if hasCost then predictDecision classes P C noise else estPred.map some
  else decode classes choice

end SklearnPredict

end Ska.Classifier
