/-!
# Labels, missing-label predicates and the label encoder
(model of `skactiveml/utils/_label.py` and `skactiveml/utils/_label_encoder.py`)

Core Lean only (no Mathlib): executed by the driver at `α = Int`, reasoned about over an arbitrary
linear order in `SkaModel/Props/C16.lean` and `C09.lean`.

Conventions
* a label value is `Lbl α`: a number `num x`, the float NaN `nanv`, a string `str s` (strings are
  represented by an order-isomorphic code in `α`), or Python's `None` (`none_`);
* what numpy inferred as the array's dtype is an explicit tag `ArrKind` supplied by the caller
  (dtype inference is glue, DESIGN §3); an array is its kind, its shape (`rows`, `cols = none` for 1-d)
  and its row-major contents;
* a `missing_label` argument of an unsupported Python type (bool, list, …) is `none : Option (Lbl α)`;
* errors are a small enum `LErr`.
-/

namespace Ska.Label

inductive Lbl (α : Type) where
  | num (x : α)
  | nanv
  | str (s : α)
  | none_
  deriving DecidableEq, Repr

/-- numpy dtype class of an array: `np.number`, `np.character`, `object`. -/
inductive ArrKind where
  | number | string | object
  deriving DecidableEq, Repr

inductive LErr where
  | typeError        -- TypeError (unsupported sentinel type, sentinel/dtype mismatch, strings mixed with numbers)
  | shape            -- ValueError: 2-d array without columns / inconsistent lengths
  | unseen           -- ValueError: y contains previously unseen labels
  | duplicate        -- ValueError: duplicate entries in `classes`
  | classesMissing   -- ValueError: `classes` contains the missing label
  | unsupported      -- outside the modelled domain (numpy string casting of numbers)
  | noClasses        -- ValueError: number of classes can not be inferred
  | trueMissing      -- ValueError: `y_true` contains missing labels
  | normalize        -- ValueError: unknown `normalize`
  deriving DecidableEq, Repr

structure Arr (α : Type) where
  kind : ArrKind
  rows : Nat
  cols : Option Nat
  flat : List (Lbl α)

namespace Lbl
variable {α : Type}

def isNumber : Lbl α → Bool
  | .num _ => true
  | .nanv => true
  | _ => false

def isChar : Lbl α → Bool
  | .str _ => true
  | _ => false

def isNone : Lbl α → Bool
  | .none_ => true
  | _ => false

/-- Order used by `np.unique` / `sorted`: numbers by value with NaN last, strings by value.
(`num < nanv < str < none_` across kinds; only one kind occurs among the labeled values of a
supported array.) -/
def lt [LT α] [DecidableLT α] : Lbl α → Lbl α → Bool
  | .num a, .num b => decide (a < b)
  | .num _, _ => true
  | .nanv, .num _ => false
  | .nanv, .nanv => false
  | .nanv, _ => true
  | .str a, .str b => decide (a < b)
  | .str _, .none_ => true
  | .str _, _ => false
  | .none_, _ => false

instance instLT [LT α] [DecidableLT α] : LT (Lbl α) := ⟨fun a b => Lbl.lt a b = true⟩

instance instDecidableLT [LT α] [DecidableLT α] : DecidableLT (Lbl α) :=
  fun a b => inferInstanceAs (Decidable (Lbl.lt a b = true))

end Lbl

section Pred
variable {α : Type} [DecidableEq α]

/-- `check_missing_label(missing_label)`: the sentinel is a number, a string, NaN or None. -/
def checkMl : Option (Lbl α) → Except LErr (Lbl α)
  | none => .error .typeError
  | some m => .ok m

/-- `check_missing_label(missing_label, target_type)`: is the sentinel comparable with an array of
this dtype class? -/
def compat : ArrKind → Lbl α → Bool
  | .string, .num _ => false
  | .string, .nanv => false
  | .number, .str _ => false
  | .object, .none_ => true
  | .object, _ => false
  | _, _ => true

/-- dtype class of `np.append(y.ravel(), missing_label)`. -/
def appendKind : ArrKind → Lbl α → ArrKind
  | .object, _ => .object
  | _, .none_ => .object
  | .string, _ => .string
  | .number, .str _ => .string
  | .number, _ => .number

/-- the pre-check on non-ndarray input: the Python types of the values and of the sentinel contain
both strings and numbers (`NoneType` is neither). -/
def listMixed (ml : Lbl α) (y : List (Lbl α)) : Bool :=
  (ml :: y).any Lbl.isNumber && (ml :: y).any Lbl.isChar

/-- One entry of `is_unlabeled`: NaN sentinel → `np.isnan`; otherwise `==` after casting to the
common dtype. -/
def isMissing (ml x : Lbl α) : Bool :=
  match ml, x with
  | .nanv, .nanv => true
  | .nanv, _ => false
  | .num m, .num v => decide (v = m)
  | .str m, .str s => decide (s = m)
  | .none_, .none_ => true
  | _, _ => false

def notMissing (ml x : Lbl α) : Bool := !isMissing ml x

/-- `is_unlabeled(y, missing_label)` as a flat row-major mask. `isList` = `y` was not an ndarray. -/
def isUnlabeledArr (isList : Bool) (mlArg : Option (Lbl α)) (a : Arr α) : Except LErr (List Bool) :=
  match checkMl mlArg with
  | .error e => .error e
  | .ok ml =>
    if a.rows = 0 then .ok []
    else if isList && listMixed ml a.flat then .error .typeError
    else if !(compat (appendKind a.kind ml) ml) then .error .typeError
    else if a.cols = some 0 then .error .shape
    else if a.kind = .number && ml.isChar then .error .unsupported
    else .ok (a.flat.map (isMissing ml))

/-- `is_labeled = ~is_unlabeled`. -/
def isLabeledArr (isList : Bool) (mlArg : Option (Lbl α)) (a : Arr α) : Except LErr (List Bool) :=
  match isUnlabeledArr isList mlArg a with
  | .error e => .error e
  | .ok m => .ok (m.map not)

end Pred

section Where

/-- positions of `true`, counted from `i`. -/
def whereFrom : Nat → List Bool → List Nat
  | _, [] => []
  | i, b :: bs => if b then i :: whereFrom (i+1) bs else whereFrom (i+1) bs

/-- `np.argwhere(mask)[:, 0]` for a 1-d mask. -/
def argwhere1 (m : List Bool) : List Nat := whereFrom 0 m

def pairWith (i : Nat) (j : Nat) : Nat × Nat := (i, j)

/-- `np.argwhere(mask)` for a 2-d mask given as rows, first row has index `i`. -/
def argwhere2From : Nat → List (List Bool) → List (Nat × Nat)
  | _, [] => []
  | i, r :: rs => (whereFrom 0 r).map (pairWith i) ++ argwhere2From (i+1) rs

def argwhere2 (rows : List (List Bool)) : List (Nat × Nat) := argwhere2From 0 rows

/-- rows of a row-major array. -/
def rowsOf {γ : Type} (cols : Nat) : Nat → List γ → List (List γ)
  | 0, _ => []
  | r+1, l => l.take cols :: rowsOf cols r (l.drop cols)

end Where

section Indices
variable {α : Type} [DecidableEq α]

/-- `unlabeled_indices(y, missing_label)` for a 1-d array. -/
def unlabeledIndices1 (isList : Bool) (mlArg : Option (Lbl α)) (a : Arr α) : Except LErr (List Nat) :=
  match isUnlabeledArr isList mlArg a with
  | .error e => .error e
  | .ok m => .ok (argwhere1 m)

/-- `labeled_indices(y, missing_label)` for a 1-d array. -/
def labeledIndices1 (isList : Bool) (mlArg : Option (Lbl α)) (a : Arr α) : Except LErr (List Nat) :=
  match isLabeledArr isList mlArg a with
  | .error e => .error e
  | .ok m => .ok (argwhere1 m)

/-- `unlabeled_indices` for a 2-d array with `c` columns: `(row, column)` pairs. -/
def unlabeledIndices2 (isList : Bool) (mlArg : Option (Lbl α)) (a : Arr α) (c : Nat) :
    Except LErr (List (Nat × Nat)) :=
  match isUnlabeledArr isList mlArg a with
  | .error e => .error e
  | .ok m => .ok (argwhere2 (rowsOf c (m.length / c) m))

def labeledIndices2 (isList : Bool) (mlArg : Option (Lbl α)) (a : Arr α) (c : Nat) :
    Except LErr (List (Nat × Nat)) :=
  match isLabeledArr isList mlArg a with
  | .error e => .error e
  | .ok m => .ok (argwhere2 (rowsOf c (m.length / c) m))

end Indices

section Enc
variable {γ : Type} [LT γ] [DecidableLT γ] [DecidableEq γ]

/-- insert into a strictly sorted list, dropping duplicates. -/
def insertSorted (x : γ) : List γ → List γ
  | [] => [x]
  | y :: ys =>
    if x < y then x :: y :: ys
    else if y < x then y :: insertSorted x ys
    else y :: ys

/-- `np.unique` / `sorted(set(·))`. -/
def sortDedup : List γ → List γ
  | [] => []
  | x :: xs => insertSorted x (sortDedup xs)

/-- position in `classes_` (`searchsorted` guarded by the unknown-label check). -/
def indexOf? (x : γ) : List γ → Option Nat
  | [] => none
  | y :: ys => if x = y then some 0 else (indexOf? x ys).map (· + 1)

/-- one entry of `ExtLabelEncoder.transform`. -/
def encode1 (cls : List γ) (missing : γ → Bool) (x : γ) : Except LErr Int :=
  if missing x then .ok (-1)
  else match indexOf? x cls with
    | some i => .ok (Int.ofNat i)
    | none => .error .unseen

def transformFlat (cls : List γ) (missing : γ → Bool) : List γ → Except LErr (List Int)
  | [] => .ok []
  | x :: xs =>
    match encode1 cls missing x with
    | .error e => .error e
    | .ok c =>
      match transformFlat cls missing xs with
      | .error e => .error e
      | .ok cs => .ok (c :: cs)

/-- one entry of `ExtLabelEncoder.inverse_transform`. -/
def decode1 (cls : List γ) (ml : γ) (e : Int) : Except LErr γ :=
  if e = -1 then .ok ml
  else if e < 0 then .error .unseen
  else match cls[e.toNat]? with
    | some c => .ok c
    | none => .error .unseen

def decodeFlat (cls : List γ) (ml : γ) : List Int → Except LErr (List γ)
  | [] => .ok []
  | e :: es =>
    match decode1 cls ml e with
    | .error err => .error err
    | .ok c =>
      match decodeFlat cls ml es with
      | .error err => .error err
      | .ok cs => .ok (c :: cs)

/-- has the list two equal entries? (`len(set(classes)) != len(classes)`) -/
def hasDup : List γ → Bool
  | [] => false
  | x :: xs => xs.contains x || hasDup xs

end Enc

section ExtEnc
variable {α : Type} [DecidableEq α] [LT α] [DecidableLT α]

/-- the fitted state of an `ExtLabelEncoder`: `classes_`, `missing_label`, class of `_dtype`. -/
structure Fitted (α : Type) where
  classes : List (Lbl α)
  ml : Lbl α
  dkind : ArrKind
  deriving DecidableEq, Repr

/-- `check_classifier_params(classes, missing_label)` (without cost matrix), given a supported sentinel. -/
def checkClassifierParams (ml : Lbl α) : Option (ArrKind × List (Lbl α)) → Except LErr Unit
  | none => .ok ()
  | some (kc, cls) =>
    if cls.any Lbl.isNumber && cls.any Lbl.isChar then .error .typeError   -- sorted(set(classes)) raises
    else if cls.any Lbl.isNone then .error .unsupported
    else if hasDup cls then .error .duplicate
    else if !(compat kc ml) then .error .typeError
    else if cls.any (isMissing ml) then .error .classesMissing
    else .ok ()

/-- `ExtLabelEncoder(classes, missing_label).fit(y)`. -/
def encoderFit (mlArg : Option (Lbl α)) (classes : Option (ArrKind × List (Lbl α))) (y : Arr α) :
    Except LErr (Fitted α) :=
  match checkMl mlArg with
  | .error e => .error e
  | .ok ml =>
    match checkClassifierParams ml classes with
    | .error e => .error e
    | .ok _ =>
      if y.rows ≠ 0 && y.cols = some 0 then .error .shape      -- check_array: 0 feature(s)
      else if !(compat y.kind ml) then .error .typeError
      else
        match classes with
        | some (kc, cls) => .ok ⟨sortDedup cls, ml, appendKind kc ml⟩
        | none =>
          match isUnlabeledArr false (some ml) y with
          | .error e => .error e
          | .ok _ => .ok ⟨sortDedup (y.flat.filter (notMissing ml)), ml, appendKind y.kind ml⟩

/-- One `fit` call on an encoder *object* whose previous fitted state is `prev` (`none` = never fitted):
returns the outcome of the call and the state afterwards.  `fit` assigns `_le`, `_dtype` and `classes_`
anew from its arguments and reads nothing of the old state; a call that raises leaves the old state. -/
def refit (prev : Option (Fitted α)) (mlArg : Option (Lbl α))
    (classes : Option (ArrKind × List (Lbl α))) (y : Arr α) :
    Except LErr (Fitted α) × Option (Fitted α) :=
  match encoderFit mlArg classes y with
  | .ok f => (.ok f, some f)
  | .error e => (.error e, prev)

/-- `ExtLabelEncoder.transform(y)` (flat, row-major). -/
def encoderTransform (f : Fitted α) (y : Arr α) : Except LErr (List Int) :=
  if y.rows ≠ 0 && y.cols = some 0 then .error .shape        -- check_array: 0 feature(s)
  else
  match isUnlabeledArr false (some f.ml) y with
  | .error e => .error e
  | .ok _ => transformFlat f.classes (isMissing f.ml) y.flat

/-- `ExtLabelEncoder.inverse_transform(y_enc)` on integer codes. -/
def encoderInverse (f : Fitted α) (e : List Int) : Except LErr (List (Lbl α)) :=
  decodeFlat f.classes f.ml e

end ExtEnc

section CostPerm
variable {γ : Type} [LT γ] [DecidableLT γ]

/-- insertion of a `(key, index)` pair into a list sorted by key (stable). -/
def insertKey (p : γ × Nat) : List (γ × Nat) → List (γ × Nat)
  | [] => [p]
  | q :: qs => if p.1 < q.1 then p :: q :: qs else q :: insertKey p qs

def sortKeys : List (γ × Nat) → List (γ × Nat)
  | [] => []
  | p :: ps => insertKey p (sortKeys ps)

def enumFrom' : Nat → List γ → List (γ × Nat)
  | _, [] => []
  | i, x :: xs => (x, i) :: enumFrom' (i+1) xs

/-- `np.argsort(classes)` (keys are pairwise distinct in every supported call). -/
def argsort (l : List γ) : List Nat := (sortKeys (enumFrom' 0 l)).map Prod.snd

/-- `C[idx][:, idx]`. -/
def permuteMatrix {β : Type} [Inhabited β] (c : List (List β)) (idx : List Nat) : List (List β) :=
  idx.map (fun i => idx.map (fun j => (c.getD i []).getD j default))

end CostPerm

end Ska.Label
