import SkaModel.Core.Budget

/-!
# The density window of `StreamDensityBasedAL` (model of `_calculate_ldf`, and of what `query` / `update` do to
`window_` and `min_dist_` in `skactiveml/stream/_density_uncertainty.py`)

`window_` and `min_dist_` are `deque(maxlen=window_size)`.  A sample is whatever the distance function looks at
(`χ`); `dist w x` is `dist_func(window_, [x])` entry by entry (an explicit argument: Manhattan distance on grid
points in the driver).  Core Lean only.
-/

namespace Ska.Density
open Ska.Budget

variable {α : Type} [LT α] [DecidableLT α] {χ : Type}

/-- `deque(maxlen=w).append(x)` -/
def pushMax {β : Type} (w : Nat) (l : List β) (x : β) : List β :=
  let l' := l ++ [x]
  l'.drop (l'.length - w)

/-- `window_` and `min_dist_` -/
structure DW (α χ : Type) where
  win : List χ
  md : List α

/-- `for i in np.where(is_new_nn)[0]: min_dist_[i] = distances[i]` -/
def lowerTo : List α → List α → List α
  | [], _ => []
  | m :: ms, [] => m :: ms
  | m :: ms, d :: ds => (if d < m then d else m) :: lowerTo ms ds

/-- `np.sum(distances < np.array(min_dist_))` -/
def countNew : List α → List α → Nat
  | [], _ => 0
  | _ :: _, [] => 0
  | m :: ms, d :: ds => (if d < m then 1 else 0) + countNew ms ds

/-- `_calculate_ldf([x])`: the local density factor of `x` and the object afterwards (`min_dist_` is updated in
place and extended; `window_` is not touched here). `minOf` is `np.min`. -/
def calcLdf (w : Nat) (inf : α) (dist : χ → χ → α) (s : DW α χ) (x : χ) : Nat × DW α χ :=
  match s.win.map (fun v => dist v x) with
  | [] => (0, { s with md := pushMax w s.md inf })
  | d :: ds =>
    (countNew s.md (d :: ds), { s with md := pushMax w (lowerTo s.md (d :: ds)) (minL d ds) })

/-- one instance of the loops of `query` / `update`: density filter outcome (`ldf > 0`), then `window_.append(x)` -/
def step (w : Nat) (inf : α) (dist : χ → χ → α) (s : DW α χ) (x : χ) : Bool × DW α χ :=
  let r := calcLdf w inf dist s x
  (decide (0 < r.1), { r.2 with win := pushMax w r.2.win x })

/-- `update`: the windows after the chunk and the filter outcomes -/
def update (w : Nat) (inf : α) (dist : χ → χ → α) (s : DW α χ) (xs : List χ) : List Bool × DW α χ :=
  simLoop (step w inf dist) s xs

/-- `query`: the loop runs on the live deques, afterwards `min_dist_` and `window_` are put back
(`tmp_min_dist = copy(self.min_dist_)` … `self.min_dist_ = tmp_min_dist`). Returns the filter outcomes and the
object afterwards. -/
def query (w : Nat) (inf : α) (dist : χ → χ → α) (s : DW α χ) (xs : List χ) : List Bool × DW α χ :=
  let tmpMd := s.md
  let tmpWin := s.win
  let r := simLoop (step w inf dist) s xs
  (r.1, { r.2 with md := tmpMd, win := tmpWin })

end Ska.Density
