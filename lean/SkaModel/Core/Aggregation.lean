import SkaModel.Core.Label
import SkaModel.Core.Selection

/-!
# Annotation aggregation
(model of `skactiveml/utils/_aggregation.py` and `ext_confusion_matrix` of `skactiveml/utils/_multi_annot.py`)

Core Lean only (no Mathlib).  Weights live in a generic carrier `α` (`Float` in the driver, an
ordered semiring / field in the theorems); a NaN weight is `none : Option α`.  Encoded labels are the
output of `ExtLabelEncoder.transform` (`Core/Label.lean`): `-1` = missing, `0..K-1` = class.
The noise `random_state.random(V.shape)` consumed by `rand_argmax` is an explicit argument.
-/

namespace Ska.Agg
open Ska Ska.Label

section Vote
variable {α : Type} [Add α] [OfNat α 0] [OfNat α 1]

/-- `out[i] += w` -/
def addAt : List α → Nat → α → List α
  | [], _, _ => []
  | x :: xs, 0, w => (x + w) :: xs
  | x :: xs, i+1, w => x :: addAt xs i w

/-- the accumulation loop of `np.bincount(idx, weights=wts)`: entries are added in array order. -/
def bincountGo : List α → List Nat → List α → List α
  | acc, [], _ => acc
  | acc, _ :: _, [] => acc
  | acc, i :: is, w :: ws => bincountGo (addAt acc i w) is ws

/-- `np.bincount(idx, minlength=len, weights=wts)` (all indices are `< len` in every call). -/
def bincount (len : Nat) (idx : List Nat) (wts : List α) : List α :=
  bincountGo (List.replicate len 0) idx wts

/-- `y[is_unlabeled_y] = 0` — the class a (zero-weighted) missing entry is booked on. -/
def voteClass (e : Int) : Nat := if e = -1 then 0 else e.toNat

/-- the weight after `w[is_unlabeled_y] = 1; w[isnan(w) | is_unlabeled_y] = 0`. -/
def voteWeight (e : Int) (w : Option α) : α :=
  if e = -1 then 0
  else match w with
    | none => 0
    | some v => v

def offsetRow (K i : Nat) (e : Int) : Nat := voteClass e + i * K

/-- `(y + np.arange(n)[:, None] * K).ravel()`, first row has index `i`. -/
def offsets (K : Nat) : Nat → List (List Int) → List Nat
  | _, [] => []
  | i, r :: rs => r.map (offsetRow K i) ++ offsets K (i+1) rs

/-- the flat weight vector handed to `bincount`. -/
def flatWeights : List (List Int) → List (List (Option α)) → List α
  | [], _ => []
  | _ :: _, [] => []
  | r :: rs, w :: ws => List.zipWith voteWeight r w ++ flatWeights rs ws

def onesLike (y : List (List Int)) : List (List (Option α)) :=
  y.map (fun r => r.map (fun _ => some (1 : α)))

def sameShape {β γ : Type} : List (List β) → List (List γ) → Bool
  | [], [] => true
  | r :: rs, w :: ws => (r.length == w.length) && sameShape rs ws
  | _, _ => false

/-- the weight matrix `compute_vote_vectors` works with: `w`, or all ones for `w=None`. -/
def effWeights (yenc : List (List Int)) : Option (List (List (Option α))) → List (List (Option α))
  | none => onesLike yenc
  | some w => w

/-- `compute_vote_vectors` after the label encoding: `yenc` is the encoded `(n, m)` label matrix,
`K = len(classes_)`, `w = none` stands for `w=None`. -/
def computeVoteVectors (K : Nat) (yenc : List (List Int)) (w : Option (List (List (Option α)))) :
    Except LErr (List (List α)) :=
  if K = 0 then .error .noClasses
  else if !(sameShape yenc (effWeights yenc w)) then .error .shape
  else
    .ok (rowsOf K yenc.length
      (bincount (yenc.length * K) (offsets K 0 yenc) (flatWeights yenc (effWeights yenc w))))

end Vote

section Majority
variable {α : Type} [Add α] [OfNat α 0] [OfNat α 1] [LT α] [DecidableLT α]
variable {β : Type} [LT β] [DecidableLT β] [OfNat β 0]

def rowLabeled (r : List Int) : Bool := r.any (fun e => decide (e ≠ -1))

/-- rows of `m` at the positions where `mask` is true (`m[is_labeled_y]`). -/
def selectRows {γ : Type} : List Bool → List γ → List γ
  | true :: bs, x :: xs => x :: selectRows bs xs
  | false :: bs, _ :: xs => selectRows bs xs
  | _, _ => []

/-- `y_aggregated[is_labeled_y] = picks`, `-1` (the sentinel) elsewhere. -/
def scatterPicks : List Bool → List Nat → List Int
  | [], _ => []
  | false :: bs, ps => (-1) :: scatterPicks bs ps
  | true :: bs, p :: ps => (p : Int) :: scatterPicks bs ps
  | true :: bs, [] => (-1) :: scatterPicks bs []

def someRow (r : List α) : List (Option α) := r.map some

/-- `majority_vote` after the label encoding; the result is encoded as well (`-1` = sentinel).
`noise` is `random_state.random((n_labeled, K))` as consumed by `rand_argmax(V, axis=1)`. -/
def majorityVote (K : Nat) (yenc : List (List Int)) (w : Option (List (List (Option α))))
    (noise : List (List β)) : Except LErr (List Int) :=
  let lab := yenc.map rowLabeled
  if !(lab.any id) then .ok (yenc.map (fun _ => -1))
  else
    let yl := selectRows lab yenc
    let wl := match w with
      | none => none
      | some w => some (selectRows lab w)
    match computeVoteVectors K yl wl with
    | .error e => .error e
    | .ok v => .ok (scatterPicks lab (randArgmaxRows (v.map someRow) noise))

end Majority

section Confusion

inductive Norm where
  | none_ | true_ | pred | all
  deriving DecidableEq, Repr

/-- the pairs `(y_true[k], y_pred[k, a])` of annotator column `ps` with a non-missing prediction:
`y[is_not_nan_a, 0]`, `y[is_not_nan_a, a+1]`. -/
def labeledPairs : List Int → List Int → List (Int × Int)
  | t :: ts, p :: ps => if p = -1 then labeledPairs ts ps else (t, p) :: labeledPairs ts ps
  | _, _ => []

def pairIs (i j : Nat) (q : Int × Int) : Bool := decide (q.1 = (i : Int)) && decide (q.2 = (j : Int))

/-- `sklearn.metrics.confusion_matrix(y_true, y_pred, labels=arange(K))`: entry `(i, j)` counts the
pairs with true class `i` and predicted class `j`. -/
def confusionCounts (K : Nat) (pairs : List (Int × Int)) : List (List Nat) :=
  (List.range K).map (fun i => (List.range K).map (fun j => (pairs.filter (pairIs i j)).length))

def natSum (l : List Nat) : Nat := l.foldr (· + ·) 0

def colOf (cm : List (List Nat)) (j : Nat) : List Nat := cm.map (fun r => r.getD j 0)

variable {α : Type} [Div α] [OfNat α 1]

/-- one annotator's matrix after the requested normalisation; `cast` embeds counts into `α`.
`0/0` (NaN in numpy) is replaced by `1/K` (`'true'`, `'pred'`) resp. `1/K²` (`'all'`). -/
def normalizeCm (cast : Nat → α) (K : Nat) (norm : Norm) (cm : List (List Nat)) : List (List α) :=
  match norm with
  | .none_ => cm.map (fun r => r.map cast)
  | .true_ =>
    cm.map (fun r =>
      let s := natSum r
      r.map (fun c => if s = 0 then (1 : α) / cast K else cast c / cast s))
  | .pred =>
    cm.map (fun r =>
      (List.range r.length).map (fun j =>
        let s := natSum (colOf cm j)
        if s = 0 then (1 : α) / cast K else cast (r.getD j 0) / cast s))
  | .all =>
    let s := natSum (cm.map natSum)
    cm.map (fun r => r.map (fun c => if s = 0 then (1 : α) / cast (K * K) else cast c / cast s))

/-- columns of a row-major matrix given as rows. -/
def columns {γ : Type} [Inhabited γ] (nCols : Nat) (rows : List (List γ)) : List (List γ) :=
  (List.range nCols).map (fun a => rows.map (fun r => r.getD a default))

/-- `ext_confusion_matrix` after the label encoding of `column_stack((y_true, y_pred))`:
`ts` = encoded `y_true`, `predCols` = the encoded annotator columns, `norm = none` = an unknown
`normalize` argument. -/
def extConfusionMatrix (cast : Nat → α) (K : Nat) (ts : List Int) (predCols : List (List Int))
    (norm : Option Norm) : Except LErr (List (List (List α))) :=
  match norm with
  | none => .error .normalize
  | some nm =>
    if ts.any (fun t => decide (t = -1)) then .error .trueMissing
    else .ok (predCols.map (fun ps => normalizeCm cast K nm (confusionCounts K (labeledPairs ts ps))))

end Confusion

end Ska.Agg
