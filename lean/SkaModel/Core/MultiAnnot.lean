import SkaModel.Core.Selection

/-!
# Multi-annotator pool strategies (model of `MultiAnnotatorPoolQueryStrategy`,
# `SingleAnnotatorWrapper`, `IntervalEstimationThreshold`)

Core Lean only.  Conventions (see `Core/Selection.lean`): a utility is `Option α` (`none` = NaN),
random draws and the wrapped single-annotator strategy's result are explicit arguments.

Matrices over sample-annotator pairs are *flat, row-major* lists of length `n * m`
(`m` = number of annotators): the pair `(i, j)` lives at `p = i * m + j`, i.e. `i = p / m`,
`j = p % m` (`np.unravel_index`).  Boolean availability matrices produced by
`_transform_cand_annot` are `List (List Bool)` (one row per selectable candidate).
-/

namespace Ska.MultiAnnot
open Ska

/-! ## the arguments `candidates` / `annotators` (after `_validate_data`) -/

/-- `candidates`: `None`, an index array (sorted, unique after `check_indices`), or `n` feature rows. -/
inductive Cand where
  | all
  | idx (c : List Nat)
  | feat (n : Nat)
  deriving Repr, DecidableEq

/-- `annotators`: `None`, an index array, or a boolean matrix `(n_candidates, n_annotators)`. -/
inductive Annot where
  | all
  | idx (a : List Nat)
  | mat (M : List (List Bool))
  deriving Repr, DecidableEq

def countRow (r : List Bool) : Nat := r.count true

/-- `int(np.sum(M))` of a boolean matrix. -/
def countTrue (M : List (List Bool)) : Nat := (M.map countRow).sum

/-- `n_candidate_pairs` of `_validate_data` (base.py:625-636); `unl = is_unlabeled(y)`. -/
def nCandidatePairs (nS m : Nat) (unl : List (List Bool)) : Cand → Annot → Nat
  | .all, .all => countTrue unl
  | .idx c, .all => c.length * m
  | .feat n, .all => n * m
  | .all, .idx a => nS * a.length
  | .idx c, .idx a => c.length * a.length
  | .feat n, .idx a => n * a.length
  | _, .mat M => countTrue M

/-- `if n_candidate_pairs < batch_size: batch_size = n_candidate_pairs`. -/
def clipBatch (b pairs : Nat) : Nat := if pairs < b then pairs else b

/-! ## `_transform_cand_annot` -/

def anyTrue (r : List Bool) : Bool := r.any id
def allTrue (r : List Bool) : Bool := r.all id

/-- `A = np.full((·, m), False); A[:, annotators] = True` — one row of it. -/
def colMask (m : Nat) (a : List Nat) : List Bool := (List.range m).map (fun j => a.contains j)

def hasUnl (unl : List (List Bool)) (i : Nat) : Bool := anyTrue (unl.getD i [])

/-- `np.argwhere(np.any(unlbd_pairs, axis=1)).flatten()`. -/
def unlabeledSamples (unl : List (List Bool)) : List Nat :=
  (List.range unl.length).filter (hasUnl unl)

/-- the availability rows for `n` candidate rows when candidates are given (or `annotators` is). -/
def annotRows (n m : Nat) : Annot → List (List Bool)
  | .all => List.replicate n (List.replicate m true)
  | .idx a => List.replicate n (colMask m a)
  | .mat M => M

/-- `(mapping, A_cand)` of `_transform_cand_annot` (`X_cand` is `X[mapping]` resp. the feature rows).
`A_cand` is a list of `Bool` rows: the model says the mask is Boolean in all nine cases. -/
def transformCandAnnot (nS m : Nat) (unl : List (List Bool)) :
    Cand → Annot → Option (List Nat) × List (List Bool)
  | .feat n, an => (none, annotRows n m an)
  | .all, .all => (some (unlabeledSamples unl), (unlabeledSamples unl).map (fun i => unl.getD i []))
  | .all, an => (some (List.range nS), annotRows nS m an)
  | .idx c, an => (some c, annotRows c.length m an)

/-! ## `n_annotators_per_sample` → `pref_n_annotators` -/

inductive Pref where
  | int (n : Nat)
  | arr (l : List Nat)
  deriving Repr

/-- `pref_n_annotators` of length `batch_size_sq`: an int is repeated, an array is cut or padded
with its last entry. -/
def prefVector : Pref → Nat → List Nat
  | .int n, sq => List.replicate sq n
  | .arr l, sq =>
    if sq < l.length then l.take sq else l ++ List.replicate (sq - l.length) (l.getLastD 0)

/-! ## `_n_to_assign_annotators`: a `while` loop (it could diverge before repair 6c5fda89) -/

def minSucc (n c : Nat) : Nat := min n (c + 1)

/-- `annot_per_sample = np.minimum(n_max_chosen_annotators, pref_n_annotators)`. -/
def assignInit (nmax pref : List Nat) : List Nat := List.zipWith min nmax pref

/-- one pass of the loop body: `np.minimum(n_max_chosen_annotators, annot_per_sample + 1)`. -/
def assignStep (nmax cur : List Nat) : List Nat := List.zipWith minSucc nmax cur

def ltB (n c : Nat) : Bool := decide (c < n)

/-- `np.any(annot_per_sample < n_max_chosen_annotators)`: some chosen sample can still take one more. -/
def canGrow (nmax cur : List Nat) : Bool := (List.zipWith ltB nmax cur).any id

/-- the `while n_annotator_sample_pairs < batch_size and np.any(annot_per_sample < n_max_chosen)` loop
with at most `fuel` passes through the body; `none` = the loop condition still holds after `fuel`
passes (never the case for `fuel ≥ Σ nmax`: `nToAssign_terminates`). -/
def assignIter : Nat → Nat → List Nat → List Nat → Option (List Nat)
  | fuel, b, nmax, cur =>
    if b ≤ cur.sum || !(canGrow nmax cur) then some cur
    else match fuel with
      | 0 => none
      | f + 1 => assignIter f b nmax (assignStep nmax cur)

/-- `_n_to_assign_annotators(batch_size, A, s_indices, pref)`; `nmax = np.sum(A, axis=1)[s_indices]`. -/
def nToAssign (fuel b : Nat) (nmax pref : List Nat) : Option (List Nat) :=
  assignIter fuel b nmax (assignInit nmax pref)

/-! ## `_get_order_preserving_s_query` -/

section Rank
variable {α : Type} [LT α] [DecidableLT α]

/-- is the entry `(l, vl)` sorted before position `i` with value `vi` by a stable sort? -/
def below (i : Nat) (vi : α) (l : Nat) (vl : α) : Bool :=
  decide (vl < vi) || (decide (l < i) && eqv vl vi)

def countBelow (i : Nat) (vi : α) : Nat → List α → Nat
  | _, [] => 0
  | l, v :: vs => (if below i vi l v then 1 else 0) + countBelow i vi (l + 1) vs

/-- `rankdata(row, method="ordinal")[i]` (1-based; ties in order of position). -/
def ordRank (row : List α) (i : Nat) : Nat :=
  match row[i]? with
  | some vi => 1 + countBelow i vi 0 row
  | none => 0

def fillNaN (ninf : α) : Option α → α
  | none => ninf
  | some v => v

def maskRank (cast : Nat → α) (r : Nat) : Option α → Option α
  | none => none
  | some _ => some (cast r)

/-- the rank after `candidate_utilities[i, sample_indices[i]] = candidate_utilities.shape[1] + 1`
(repair 79ce7853: forced *after* ranking, so it exceeds every ordinal rank `≤ n`). -/
def chosenRank (n chosen r i : Nat) : Nat := if i = chosen then n + 1 else r

/-- row `i` of the rank matrix: NaN → `-inf`, ordinal ranks, the chosen sample's rank set to `n + 1`,
as floats (`cast`), the NaN positions of the *input* row restored. -/
def rankRow (ninf : α) (cast : Nat → α) (row : List (Option α)) (chosen : Nat) : List (Option α) :=
  let filled := row.map (fillNaN ninf)
  (List.range row.length).map
    (fun i => maskRank cast (chosenRank row.length chosen (ordRank filled i) i) (row.getD i none))

variable [Add α] [OfNat α 1]

/-- **before repair 79ce7853**: value written at the chosen sample *before* ranking,
`np.nanmax(row) + 1` (row already NaN-free) — not above the row when the maximum is infinite. -/
def forcedTopOld (ninf : α) (filled : List α) : α :=
  match nanmax (filled.map some) with
  | some mx => mx + 1
  | none => ninf

/-- **before repair 79ce7853**: the chosen sample gets `max + 1`, then ordinal ranks. -/
def rankRowOld (ninf : α) (cast : Nat → α) (row : List (Option α)) (chosen : Nat) : List (Option α) :=
  let filled := row.map (fillNaN ninf)
  let forced := filled.set chosen (forcedTopOld ninf filled)
  (List.range row.length).map (fun i => maskRank cast (ordRank forced i) (row.getD i none))

def combineAt (m : Nat) (avail : List Bool) (au : List α) (rk : List (Option α)) (p : Nat) : Option α :=
  if avail.getD p false then
    match rk.getD (p / m) none, au[p]? with
    | some r, some a => some (r + a)
    | _, _ => none
  else none

/-- one matrix of `s_utilities`: `rank[:, None] + annotator_utilities` with `annotator_utilities[~A] = nan`,
flat over the pairs. -/
def sMatrix (m : Nat) (avail : List Bool) (au : List α) (rk : List (Option α)) : List (Option α) :=
  (List.range avail.length).map (combineAt m avail au rk)

end Rank

/-! ## `_query_annotators`: the batch loop -/

section Loop
variable {α : Type} [LT α] [DecidableLT α]
variable {β : Type} [LT β] [DecidableLT β] [OfNat β 0]

def setPair (p : Nat) (M : List (Option α)) : List (Option α) := M.set p none

/-- `s_utilities[:, i, j] = np.nan` (all matrices, also the later ones). -/
def setAll (S : List (List (Option α))) (p : Nat) : List (List (Option α)) := S.map (setPair p)

/-- The `for batch_index in range(batch_size)` loop.  State: the matrices `S`, the sample pointer
`si` and the number `ps` of annotators already assigned to the current sample.  Each step records
`(flat pick, utilities[batch_index])`.  The list ends early when `S[si]` does not exist (Python:
`IndexError`) or the noise runs out. -/
def qaLoop : Nat → List (List (Option α)) → List Nat → Nat → Nat → List (List β) →
    List (Nat × List (Option α))
  | 0, _, _, _, _, _ => []
  | _ + 1, _, _, _, _, [] => []
  | b + 1, S, nAs, si, ps, nz :: ns =>
    match S[si]? with
    | none => []
    | some cur =>
      let p := randArgmax cur nz
      if nAs.getD si 0 ≤ ps + 1 then (p, cur) :: qaLoop b (setAll S p) nAs (si + 1) 0 ns
      else (p, cur) :: qaLoop b (setAll S p) nAs si (ps + 1) ns

end Loop

/-! ## the whole `SingleAnnotatorWrapper.query` after the inner strategy returned -/

inductive MAErr where
  | nonTermination   -- `_n_to_assign_annotators` never exits
  | index            -- IndexError (sample pointer past the matrices / pick not in mapping)
  | infinite | batchSize | other
  deriving Repr, DecidableEq

def flatten2 {γ : Type} (M : List (List γ)) : List γ := M.flatten

def gatherRow {γ : Type} (mp : List Nat) (row : List (Option γ)) : List (Option γ) :=
  mp.map (fun s => row.getD s none)

/-- position of sample `s` in `mapping`: `np.argwhere(mapping == s)[0, 0]`. -/
def posIn (mp : List Nat) (s : Nat) : Nat := mp.idxOf s

def scatterAt {γ : Type} (m : Nat) (mp : List Nat) (row : List (Option γ)) (q : Nat) : Option γ :=
  if mp.contains (q / m) then row.getD (posIn mp (q / m) * m + q % m) none else none

/-- `utilities = np.full((n_samples, m), nan); utilities[mapping, :] = w_utilities` (flat). -/
def scatterRows {γ : Type} (nS m : Nat) (mp : List Nat) (row : List (Option γ)) : List (Option γ) :=
  (List.range (nS * m)).map (scatterAt m mp row)

structure WrapResult (α : Type) where
  batch : Nat                         -- clipped batch size
  mapping : Option (List Nat)
  A : List (List Bool)
  pref : List Nat
  nAs : List Nat
  picks : List (Nat × Nat)            -- translated through `mapping`
  rows : List (List (Option α))       -- `(n_samples or n_candidates) * m` each

section Wrapper
variable {α : Type} [LT α] [DecidableLT α] [Add α] [OfNat α 1]
variable {β : Type} [LT β] [DecidableLT β] [OfNat β 0]

def translatePick (m : Nat) (mapping : Option (List Nat)) (p : Nat) : Nat × Nat :=
  match mapping with
  | none => (p / m, p % m)
  | some mp => (mp.getD (p / m) 0, p % m)

def translateRow (nS m : Nat) (mapping : Option (List Nat)) (row : List (Option α)) : List (Option α) :=
  match mapping with
  | none => row
  | some mp => scatterRows nS m mp row

/-- `_query_annotators` on already prepared data: `A` the availability rows, `candRows` the
inner strategy's utilities over the selectable candidates (one row per inner pick), `sIdx` the inner
picks as positions in the selectable candidates, `au` the flat annotator utilities. -/
def queryAnnotators (ninf : α) (cast : Nat → α) (fuel m b : Nat) (A : List (List Bool))
    (candRows : List (List (Option α))) (sIdx : List Nat) (au : List α) (pref : List Nat)
    (noises : List (List β)) : Except MAErr (List Nat × List (Nat × List (Option α))) :=
  let avail := flatten2 A
  let rks := List.zipWith (rankRow ninf cast) candRows sIdx
  let S := rks.map (sMatrix m avail au)
  let nmax := sIdx.map (fun s => countRow (A.getD s []))
  match nToAssign fuel b nmax pref with
  | none => .error .nonTermination
  | some nAs =>
    let out := qaLoop b S nAs 0 0 noises
    if out.length < b then .error .index else .ok (nAs, out)

/-- everything `SingleAnnotatorWrapper.query` does around the inner strategy's call. -/
def wrapperQuery (ninf : α) (cast : Nat → α) (nS m : Nat) (unl : List (List Bool)) (cand : Cand)
    (annot : Annot) (bReq : Nat) (pref : Pref) (innerPicks : List Nat)
    (innerU : List (List (Option α))) (au : List α) (noises : List (List β)) :
    Except MAErr (WrapResult α) :=
  let b := clipBatch bReq (nCandidatePairs nS m unl cand annot)
  let (mapping, A) := transformCandAnnot nS m unl cand annot
  let sq := min b A.length
  let prefV := prefVector pref sq
  let candRows := match mapping with
    | none => innerU
    | some mp => innerU.map (gatherRow mp)
  let sIdx := match mapping with
    | none => innerPicks
    | some mp => innerPicks.map (posIn mp)
  if sIdx.any (fun s => decide (A.length ≤ s)) then .error .index
  else
    let fuel := (sIdx.map (fun s => countRow (A.getD s []))).sum   -- enough: `nToAssign_terminates`
    match queryAnnotators ninf cast fuel m b A candRows sIdx au prefV noises with
    | .error e => .error e
    | .ok (nAs, out) =>
      .ok { batch := b, mapping := mapping, A := A, pref := prefV, nAs := nAs,
            picks := out.map (fun r => translatePick m mapping r.1),
            rows := out.map (fun r => translateRow nS m mapping r.2) }

end Wrapper

/-! ## `IntervalEstimationThreshold.query`: the selection skeleton -/

section IET
variable {α : Type} [LT α] [DecidableLT α] [OfNat α 0] [Add α]
variable {β : Type} [LT β] [DecidableLT β] [OfNat β 0]

def ietMaskAt (m : Nat) (full : List Bool) (U : List (Option α)) (p : Nat) : Option α :=
  if full.getD (p / m) false then U.getD p none else none

/-- `A_cand = np.repeat(np.all(A_cand, axis=1)…)`, `utilities[~A_cand] = nan`. -/
def ietMask (m : Nat) (A : List (List Bool)) (U : List (Option α)) : List (Option α) :=
  (List.range (A.length * m)).map (ietMaskAt m (A.map allTrue) U)

/-- the utilities handed to `simple_batch` (scattered into `len(X)` rows when a mapping exists). -/
def ietUtilities (nS m : Nat) (unl : List (List Bool)) (cand : Cand) (annot : Annot)
    (U : List (Option α)) : List (Option α) :=
  let (mapping, A) := transformCandAnnot nS m unl cand annot
  match mapping with
  | none => ietMask m A U
  | some mp => scatterRows nS m mp (ietMask m A U)

/-- `IntervalEstimationThreshold.query` from the raw utilities `U` (flat over the selectable
candidates × annotators) on: mask, scatter, `simple_batch(..., method="max")` on the 2-d array. -/
def ietQuery (isInf : α → Bool) (nS m : Nat) (unl : List (List Bool)) (cand : Cand) (annot : Annot)
    (b : Nat) (U : List (Option α)) (noises : List (List β)) :
    Except SelErr (List (Nat × List (Option α))) :=
  simpleBatch isInf (ietUtilities nS m unl cand annot U) b .max noises []

end IET

end Ska.MultiAnnot
