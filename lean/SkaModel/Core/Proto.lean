/-!
# Line protocol helpers for the driver (core Lean only)

Tokens are blank separated.  A double is written as the decimal value of its 64-bit pattern, `nan`
stands for NaN where the model uses `none`.  Integers are decimal (with an optional leading `-`).
-/

namespace Ska.Proto

def tokens (line : String) : List String :=
  (line.trimAscii.toString.splitOn " ").filter (· ≠ "")

def parseFloat? (t : String) : Option Float :=
  t.toNat?.map (fun n => Float.ofBits n.toUInt64)

/-- `nan` ↦ `some none`, bit pattern ↦ `some (some x)`, anything else ↦ `none`. -/
def parseOptFloat? (t : String) : Option (Option Float) :=
  if t = "nan" then some none else (parseFloat? t).map some

def parseInt? (t : String) : Option Int := t.toInt?

def showFloat (x : Float) : String := if x.isNaN then "nan" else toString x.toBits.toNat

def showOptFloat : Option Float → String
  | none => "nan"
  | some x => showFloat x

def showNats (l : List Nat) : String := " ".intercalate (l.map toString)
def showInts (l : List Int) : String := " ".intercalate (l.map toString)
def showOptFloats (l : List (Option Float)) : String := " ".intercalate (l.map showOptFloat)
def showFloats (l : List Float) : String := " ".intercalate (l.map showFloat)
def showBools (l : List Bool) : String := " ".intercalate (l.map (fun b => if b then "1" else "0"))

/-- A tiny parser monad over the token list. -/
abbrev P := StateT (List String) Option

def tok : P String := do
  match (← get) with
  | [] => failure
  | t :: ts => set ts; pure t

def nat : P Nat := do
  match (← tok).toNat? with
  | some n => pure n
  | none => failure

def int : P Int := do
  match (← tok).toInt? with
  | some n => pure n
  | none => failure

def float : P Float := do
  match parseFloat? (← tok) with
  | some x => pure x
  | none => failure

def optFloat : P (Option Float) := do
  match parseOptFloat? (← tok) with
  | some x => pure x
  | none => failure

def bool : P Bool := do
  match (← tok) with
  | "1" => pure true
  | "0" => pure false
  | _ => failure

def many {γ : Type} (p : P γ) : Nat → P (List γ)
  | 0 => pure []
  | n+1 => do let x ← p; let xs ← many p n; pure (x :: xs)

/-- `<n> x_1 … x_n` -/
def listOf {γ : Type} (p : P γ) : P (List γ) := do let n ← nat; many p n

def eoi : P Unit := do
  match (← get) with
  | [] => pure ()
  | _ => failure

def run {γ : Type} (p : P γ) (ts : List String) : Option γ :=
  match (do let x ← p; eoi; pure x : P γ).run ts with
  | some (x, _) => some x
  | none => none

end Ska.Proto
