import SkaModel.Drv.RngGen

/-! Line-protocol driver for the models *generated* from the current Python source (`Gen/RngGen.lean`).
A separate executable: if the generated file stops compiling after a source change, only the checks that
rely on it lose their tie; `skadriver` (hand-written models) is unaffected. -/

open Ska.Proto

def genHandlers : List (String × P String) := Ska.Drv.RngGen.handlers

def gstep (line : String) : String :=
  match tokens line with
  | [] => "bad-op empty"
  | cmd :: args =>
    match genHandlers.lookup cmd with
    | none => s!"bad-op unknown {cmd}"
    | some p =>
      match run p args with
      | some out => out
      | none => s!"bad-op parse {cmd}"

partial def gloop (h : IO.FS.Stream) (out : IO.FS.Stream) : IO Unit := do
  let line ← h.getLine
  if line.isEmpty then return ()
  out.putStrLn (gstep line)
  gloop h out

def main : IO Unit := do
  let out ← IO.getStdout
  gloop (← IO.getStdin) out
  out.flush
