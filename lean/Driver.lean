import SkaModel.Drv.Sel
import SkaModel.Drv.Budget
import SkaModel.Drv.Label
import SkaModel.Drv.Agg
import SkaModel.Drv.IndexWrapper
import SkaModel.Drv.MultiAnnot
import SkaModel.Drv.Classifier
import SkaModel.Drv.Regressor
import SkaModel.Drv.Fit
import SkaModel.Drv.Pool
import SkaModel.Drv.Wrapper
import SkaModel.Drv.Window
import SkaModel.Drv.Rng
import SkaModel.Drv.Density
import SkaModel.Drv.Uncertainty

/-! Line-protocol driver: one self-contained case per input line, one output line per case.
Imports only the Mathlib-free `Core`/`Drv` modules so it links as a `lean_exe`. -/

open Ska.Proto

def allHandlers : List (String × P String) :=
  Ska.Drv.Sel.handlers ++ Ska.Drv.Budget.handlers ++ Ska.Drv.Label.handlers ++ Ska.Drv.Agg.handlers
  ++ Ska.Drv.IndexWrapper.handlers ++ Ska.Drv.MultiAnnot.handlers ++ Ska.Drv.Classifier.handlers
  ++ Ska.Drv.Regressor.handlers ++ Ska.Drv.Fit.handlers ++ Ska.Drv.Pool.handlers
  ++ Ska.Drv.Wrapper.handlers ++ Ska.Drv.Window.handlers ++ Ska.Drv.Rng.handlers ++ Ska.Drv.Density.handlers ++ Ska.Drv.Uncertainty.handlers

def step (line : String) : String :=
  match tokens line with
  | [] => "bad-op empty"
  | cmd :: args =>
    match allHandlers.lookup cmd with
    | none => s!"bad-op unknown {cmd}"
    | some p =>
      match run p args with
      | some out => out
      | none => s!"bad-op parse {cmd}"

partial def loop (h : IO.FS.Stream) (out : IO.FS.Stream) : IO Unit := do
  let line ← h.getLine
  if line.isEmpty then return ()
  out.putStrLn (step line)
  loop h out

def main : IO Unit := do
  let out ← IO.getStdout
  loop (← IO.getStdin) out
  out.flush
